"""bin/check <ID> [--tier quick|thorough]  -- decide one property (DESIGN.md section 7).

exit 0  every obligation of the property discharged (known findings printed)
exit 1  VIOLATION property=<id> replay=<path>[ no-failing-input-found]
exit 2  undecided / infrastructure problem (never a verdict)
"""
import sys, os, json, time, traceback, multiprocessing, re, hashlib

ROOT = '/verif'


def parse_goals(pid):
    path = os.path.join(ROOT, 'properties', pid + '.goals')
    goals = []; meta = {'not_decided': [], 'level': 'proof', 'assumptions': [], 'trusted': []}
    for raw in open(path):
        m = re.match(r'^#\s*category:\s*(\w+)', raw)
        if m: meta['level'] = m.group(1)
        line = raw.split('#')[0].strip()
        if not line: continue
        head, _, rest = line.partition(' ')
        rest = rest.strip()
        if head in ('e2', 'e1', 'e2rel'):
            key, _, sent = rest.partition('::')
            parts = key.split()
            tier = 'quick'
            if parts and parts[0] == '@thorough': tier = 'thorough'; parts = parts[1:]
            goals.append({'engine': head, 'key': parts[0], 'args': parts[1:], 'sentence': sent.strip(), 'tier': tier})
        elif head == 'static':
            key, _, sent = rest.partition('::')
            goals.append({'engine': 'static', 'key': key.strip(), 'args': [], 'sentence': sent.strip(), 'tier': 'quick'})
        elif head == 'not_decided':
            t, _, r = rest.partition('::')
            meta['not_decided'].append({'clause': t.strip(), 'reason': r.strip()})
        elif head == 'assume':
            meta['assumptions'].append(rest)
        elif head == 'trusted':
            meta['trusted'].append(rest)
        elif head == 'title':
            meta['title'] = rest
        else:
            raise RuntimeError('%s: unknown goal line %r' % (path, line))
    return goals, meta


def run_goal(arg):
    goal, budget = arg
    t0 = time.time()
    out = {'goal': goal, 'obligations': [], 'error': None, 'static_failures': [], 'bounded': [], 'vacuous': [], 'info': None, 'axiom_instances': 0}
    try:
        if goal['engine'] in ('e2', 'e2rel'):
            from . import cast, spec as SP, e2
            db = SP.load_all()
            units = cast.all_units()
            V = e2.Verifier(units, db, budget=budget)
            k = goal['key']
            fallback = None
            if k.startswith('lemma:'): out['info'] = V.verify_lemma(k[6:])
            elif goal['engine'] == 'e2rel': out['info'] = V.verify_relational(k, goal['args'])
            else:
                try:
                    out['info'] = V.verify_function(k)
                except e2.E2Error as ex0:
                    # the contract's loop clauses do not fit the code (a loop was added, removed or renamed): this goal cannot be
                    # decided (exit 2) -- unless a bounded run of the new code against the function-level clauses of the same contract
                    # already exhibits a counterexample, which is then a genuine violation
                    msg0 = str(ex0)
                    if not re.search(r'has no invariant|contract mentions loop|does not resolve', msg0): raise
                    V = e2.Verifier(units, db, budget=budget); V.fallback_unroll = 3
                    try:
                        V.verify_function(k)
                        fallback = msg0
                    except Exception:
                        raise ex0
            obs = V.discharge_all()
            if fallback is not None:
                obs = [ob for ob in obs if ob.result['verdict'] == 'failed' and not ob.kind.startswith('loop')]
                for ob in obs: ob.result['backend'] += ' [bounded fallback: loops unrolled 3 times after "%s"]' % fallback[:120]
                out['error'] = 'E2Error: ' + fallback
            out['vacuous'] = V.check_vacuity()
            out['static_failures'] = list(getattr(V, 'static_failures', []))
            out['bounded'] = list(getattr(V, 'bounded', []))
            out['axiom_instances'] = V.axiom_instances
            out['lemmas_used'] = sorted(V.lemmas_used)
            for ob in obs:
                r = ob.result
                out['obligations'].append({'id': ob.id, 'kind': ob.kind, 'text': ob.text, 'verdict': r['verdict'], 'backend': r['backend'],
                                           'seconds': r['seconds'], 'model': r.get('model'), 'log': r.get('log')})
        elif goal['engine'] == 'e1':
            from . import e1
            out.update(e1.run_goal(goal, budget))
        elif goal['engine'] == 'static':
            from . import static
            out.update(static.run_goal(goal))
    except Exception as ex:
        out['error'] = '%s: %s' % (type(ex).__name__, ex)
        out['trace'] = traceback.format_exc()[-1500:]
    out['wall_s'] = round(time.time() - t0, 2)
    return out


def canary(budget, with_e1=False):
    """one deliberately false obligation per engine must be refuted"""
    import z3
    from .solve import discharge, Quant
    x = z3.Real('cx'); i = z3.Int('ci'); A = z3.Array('cA', z3.IntSort(), z3.RealSort())
    r1 = discharge([x > 0], x * x > x, budget=5)                      # false for 0 < x <= 1
    r2 = discharge([Quant('k', z3.IntVal(0), i, lambda k: z3.Select(A, k) >= 0)], z3.Select(A, i) >= 0, budget=5)   # index i not covered
    r3 = discharge([x > 0], x * x + 1 > x, budget=5)                  # true
    # true, but only by using the quantified hypothesis away from index 0 (guards the model-based refutation tiers)
    B = z3.Array('cB', z3.IntSort(), z3.RealSort()); j = z3.Int('cj')
    r4 = discharge([Quant('k', z3.IntVal(0), i + 1, lambda k: z3.Select(A, k) * z3.Select(A, k) == z3.Select(B, k)), i >= 3, j >= 1, j <= i], z3.Select(B, j) >= 0, budget=5)
    ok = r1['verdict'] == 'failed' and r2['verdict'] == 'failed' and r3['verdict'] == 'proved' and r4['verdict'] == 'proved'
    info = {'false_nonlinear': r1['verdict'], 'false_quantified': r2['verdict'], 'true_nonlinear': r3['verdict'], 'true_quantified_nonlinear': r4['verdict']}
    if with_e1:
        import tempfile, subprocess, shutil
        wd = tempfile.mkdtemp(prefix='lpv_canary_', dir='/var/tmp')
        try:
            open(os.path.join(wd, 'c.c'), 'w').write('int f(int x) __CPROVER_requires(x > 0) __CPROVER_ensures(__CPROVER_return_value > 1) { return x; }\nvoid h_main(void){ int x; f(x); }\n')
            subprocess.run(['goto-cc', '--function', 'h_main', os.path.join(wd, 'c.c'), '-o', os.path.join(wd, 'a.gb')], capture_output=True)
            subprocess.run(['goto-instrument', '--dfcc', 'h_main', '--enforce-contract', 'f', os.path.join(wd, 'a.gb'), os.path.join(wd, 'b.gb')], capture_output=True)
            r = subprocess.run(['cbmc', os.path.join(wd, 'b.gb'), '--sat-solver', 'cadical'], capture_output=True, text=True, timeout=60)
            info['e1_false_postcondition'] = 'failed' if 'VERIFICATION FAILED' in r.stdout else 'not-refuted'
            ok = ok and info['e1_false_postcondition'] == 'failed'
        except Exception as ex:
            info['e1_false_postcondition'] = 'error: %s' % ex; ok = False
        finally:
            shutil.rmtree(wd, ignore_errors=True)
    return ok, info


def main(argv):
    if not argv:
        print(__doc__); return 2
    pid = argv[0]
    tier = os.environ.get('VERIF_TIER', 'quick')
    if '--tier' in argv: tier = argv[argv.index('--tier') + 1]
    seed = int(os.environ.get('VERIF_SEED', '0') or 0)
    t0 = time.time()
    budget = 20.0 if tier == 'quick' else 120.0
    try:
        goals, meta = parse_goals(pid)
    except Exception as ex:
        print('UNDECIDED property=%s cannot read goals: %s' % (pid, ex)); return 2
    goals = [g for g in goals if tier == 'thorough' or g['tier'] == 'quick']
    ok_canary, canary_info = canary(budget, with_e1=any(g['engine'] == 'e1' for g in goals))
    from . import par
    nproc = min(16, max(1, len(goals)))
    os.environ['LPV_JOBS'] = str(max(2, min(8, 32 // nproc)))
    results = par.pmap(run_goal, [(g, budget) for g in goals], nproc)
    if tier == 'thorough':
        from . import replay as _rp
        meta['witness_replays'] = _rp.run_witnesses(pid)
    if tier == 'thorough' and not os.environ.get('LPV_REPO'):
        meta['seeded_self_test'] = seeded_self_test(pid, seed)
        if pid == 'C20':
            from . import units
            meta['a7_validation'] = units.validate_a7()
    from . import report
    return report.finish(pid, tier, seed, goals, meta, results, ok_canary, canary_info, t0)


def seeded_self_test(pid, seed):
    """thorough tier: apply every committed seeded change of this property to a scratch copy and run the check on it (obligations
    and witness drivers; the scratch run does not recurse into this self-test);
    reports which obligations catch which change (does not affect the exit code)"""
    import subprocess, random
    root = os.path.join(ROOT, 'seeded')
    out = []
    ids = sorted(d for d in os.listdir(root) if os.path.exists(os.path.join(root, d, 'meta.json'))) if os.path.isdir(root) else []
    ids = [d for d in ids if json.load(open(os.path.join(root, d, 'meta.json'))).get('property') == pid]
    random.Random(seed).shuffle(ids)
    def one(d):
        r = subprocess.run([os.path.join(ROOT, 'tools', 'seedtest.sh'), pid, os.path.join(root, d, 'patch.diff'), 'thorough'], capture_output=True, text=True)
        viol = re.findall(r'VIOLATION property=\S+ replay=\S*/replays/\S+/(\S+?)\.json', r.stdout)
        und = [l[:160] for l in r.stdout.split('\n') if l.startswith('UNDECIDED')]
        return {'seeded_change': d, 'verdict': 'detected' if viol else ('undecided' if und else 'missed'), 'failed_obligations': viol[:8], 'undecided': und[:3]}
    import concurrent.futures
    with concurrent.futures.ThreadPoolExecutor(3) as ex:
        out = list(ex.map(one, ids))
    return out


if __name__ == '__main__':
    sys.exit(main(sys.argv[1:]))
