"""Replay of counterexamples and known-finding witnesses against the real code.
Drivers are C++ programs under /verif/replay, compiled against the sources of the working tree
(g++ -O1, ASan + UBSan, -D_GLIBCXX_ASSERTIONS); objects are cached by content hash in /verif/build."""
import os, subprocess, json, hashlib, re, sys, concurrent.futures

ROOT = '/verif'
REPO = os.environ.get('LPV_REPO', '/repo')
BUILD = os.environ.get('LPV_BUILD', os.path.join(ROOT, 'build', 'replay'))
CXXFLAGS = ['-std=c++14', '-O1', '-g', '-fsanitize=address,undefined', '-fno-omit-frame-pointer', '-D_GLIBCXX_ASSERTIONS', '-w']
SRCS = ['Numerics.cpp', 'Linear_Algebra.cpp', 'Integration.cpp', 'Special_Functions.cpp', 'Statistics.cpp', 'Utilities.cpp', 'Natural_Units.cpp']


def _inc():
    return ['-I' + os.path.join(REPO, 'include'), '-I' + os.path.join(REPO, '_build', 'generated'), '-I' + os.path.join(REPO, 'src'), '-I' + os.path.join(ROOT, 'build', 'generated')]


def _hdr_hash():
    h = hashlib.sha256()
    d = os.path.join(REPO, 'include', 'libphysica')
    for fn in sorted(os.listdir(d)):
        h.update(open(os.path.join(d, fn), 'rb').read())
    h.update(' '.join(CXXFLAGS).encode())
    return h


def _ensure_generated():
    gen = os.path.join(REPO, '_build', 'generated', 'version.hpp')
    if os.path.exists(gen): return
    alt = os.path.join(ROOT, 'build', 'generated'); os.makedirs(alt, exist_ok=True)
    if not os.path.exists(os.path.join(alt, 'version.hpp')):
        open(os.path.join(alt, 'version.hpp'), 'w').write('#pragma once\n#define PROJECT_NAME "libphysica"\n#define PROJECT_VERSION "0"\n#define GIT_BRANCH ""\n#define GIT_COMMIT_HASH ""\n#define TOP_LEVEL_DIR "%s/"\n' % REPO)


def _compile_obj(src):
    h = _hdr_hash(); p = os.path.join(REPO, 'src', src)
    h.update(open(p, 'rb').read())
    obj = os.path.join(BUILD, src + '.' + h.hexdigest()[:20] + '.o')
    if not os.path.exists(obj):
        os.makedirs(BUILD, exist_ok=True)
        for fn in os.listdir(BUILD):
            if fn.startswith(src + '.') and fn.endswith('.o'):
                try: os.remove(os.path.join(BUILD, fn))
                except OSError: pass
        tmp = obj + '.tmp%d' % os.getpid()
        r = subprocess.run(['g++'] + CXXFLAGS + _inc() + ['-c', p, '-o', tmp], capture_output=True, text=True)
        if r.returncode != 0: raise RuntimeError('compile of %s failed: %s' % (src, r.stderr[-1500:]))
        os.replace(tmp, obj)
    return obj


def build_objects():
    _ensure_generated()
    with concurrent.futures.ThreadPoolExecutor(8) as ex:
        return list(ex.map(_compile_obj, SRCS))


_driver_cache = {}


def run_driver(name, args=(), timeout=120):
    """compile replay/<name>.cpp against the working tree and run it; returns (reproduced, text); one run per driver and process"""
    key_ = (name, tuple(str(a) for a in args))
    if key_ in _driver_cache: return _driver_cache[key_]
    res = _run_driver(name, args, timeout)
    _driver_cache[key_] = res
    return res


def _run_driver(name, args=(), timeout=120):
    objs = build_objects()
    src = os.path.join(ROOT, 'replay', name + '.cpp')
    h = hashlib.sha256(open(src, 'rb').read()); h.update(open(os.path.join(ROOT, 'replay', 'harness.hpp'), 'rb').read())
    for o in objs: h.update(o.encode())
    exe = os.path.join(BUILD, name + '.' + h.hexdigest()[:16])
    if not os.path.exists(exe):
        for fn in os.listdir(BUILD):
            if fn.startswith(name + '.') and not fn.endswith('.o'):
                try: os.remove(os.path.join(BUILD, fn))
                except OSError: pass
        r = subprocess.run(['g++'] + CXXFLAGS + _inc() + ['-I' + os.path.join(ROOT, 'replay'), src] + objs + ['-lconfig++', '-o', exe], capture_output=True, text=True)
        if r.returncode != 0: raise RuntimeError('link of %s failed: %s' % (name, r.stderr[-1500:]))
    env = dict(os.environ); env['ASAN_OPTIONS'] = 'exitcode=99:detect_leaks=0:abort_on_error=0'; env['UBSAN_OPTIONS'] = 'halt_on_error=1:exitcode=98:print_stacktrace=0'
    try:
        r = subprocess.run([exe] + [str(a) for a in args], capture_output=True, text=True, timeout=timeout, env=env)
    except subprocess.TimeoutExpired:
        return None, 'driver timed out'
    out = r.stdout[-6000:]
    if 'REPRODUCED' in out and 'NOT-REPRODUCED' not in out: return True, out
    if 'NOT-REPRODUCED' in out: return False, out
    return None, out + r.stderr[-1000:]


def load_map():
    try:
        return json.load(open(os.path.join(ROOT, 'replay', 'map.json')))
    except Exception:
        return []


def attempt(pid, ob):
    """try to turn a failed obligation into a failing input on the real code: the drivers whose pattern matches the obligation
    (its identifier, or identifier and clause text for entries with `match_text`) are run in the order of the map, at most
    three of them, until one observes a violation of the property statement."""
    first = None; tried = []
    for ent in load_map():
        if ent.get('property') not in (None, pid): continue
        if not re.search(ent['match'], ob['id']): continue
        if ent.get('match_text') and not re.search(ent['match_text'], ob.get('text', '')): continue
        if ent['driver'] in tried: continue
        tried.append(ent['driver'])
        ok, text = run_driver(ent['driver'], ent.get('args', []))
        res = {'reproduced': ok, 'scenario': {'driver': 'replay/%s.cpp' % ent['driver'], 'args': ent.get('args', []), 'derived_from': ent.get('derived_from', 'contract clause and solver model')},
               'observed': text}
        if ok: return res
        if first is None: first = res
        if len(tried) >= 3: break
    if first is not None:
        if len(tried) > 1: first['observed'] += '\n(also tried without reproducing: %s)' % ', '.join(tried[1:])
        return first
    return {'reproduced': None, 'scenario': None, 'observed': 'no replay driver matches this obligation'}


def run_witness(k):
    w = k.get('witness') or {}
    if 'driver' not in w: return None, 'no witness driver'
    try:
        return run_driver(w['driver'], w.get('args', []))
    except Exception as ex:
        return None, str(ex)


NOT_WITNESSES = {'w_edge_probe', 'w_known_nm_small_simplex'}      # a probe of requests that the contracts exclude by precondition; the witness of the recorded known finding


def drivers_of(pid):
    """witness drivers written for a property: the first line of replay/w_*.cpp names the properties it speaks about"""
    out = []
    d = os.path.join(ROOT, 'replay')
    for fn in sorted(os.listdir(d)):
        if not (fn.startswith('w_') and fn.endswith('.cpp')) or fn[:-4] in NOT_WITNESSES: continue
        first = open(os.path.join(d, fn)).readline()
        m = re.match(r'^//\s*((?:C\d\d\s*/?\s*)+):', first)
        if m and pid in re.findall(r'C\d\d', m.group(1)): out.append(fn[:-4])
    return out


def run_witnesses(pid):
    """thorough tier: every witness driver of the property is run on the real code (ASan + UBSan build of the working tree).
    Testing, not proof: a driver that observes a violation of the property statement is a failing input."""
    res = []
    for dname in drivers_of(pid):
        try:
            ok, text = run_driver(dname, timeout=600)
        except Exception as ex:
            ok, text = None, 'driver error: %s' % ex
        viol = [l for l in (text or '').split('\n') if 'VIOLATES' in l]
        res.append({'driver': 'replay/%s.cpp' % dname, 'reproduced': ok, 'observations': len([l for l in (text or '').split('\n') if l.startswith('OBSERVED')]),
                    'violating_observations': viol[:10], 'tail': (text or '')[-600:] if ok is not False else ''})
    return res


if __name__ == '__main__':
    ok, text = run_driver(sys.argv[1], sys.argv[2:])
    print(text); print('reproduced =', ok)
