"""Replay of counterexamples and known-finding witnesses against the real code.
Drivers are C++ programs under /verif/replay compiled against the sources of the working tree."""
import os, subprocess, json, hashlib

ROOT = '/verif'
REPO = os.environ.get('LPV_REPO', '/repo')


def attempt(pid, ob):
    """try to turn a failed obligation into a failing input on the real code."""
    return {'reproduced': None, 'scenario': None, 'observed': 'no replay driver for this obligation'}


def run_witness(k):
    return None, 'no witness driver'
