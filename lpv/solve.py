"""Discharge of E2 verification conditions (DESIGN.md section 2.4).

A query is hypotheses (plain z3 formulas and Quant objects) and one goal.  Verdicts:
  proved     some back end returned unsat
  failed     a back end returned sat on the (instantiated) query -> counterexample model
  undecided  every back end returned unknown / timed out
The generator removes quantifiers (instantiation at index terms), arrays (read-over-write,
scalarisation of reads) and uninterpreted functions (Ackermann) itself before nonlinear queries
reach nlsat (probe P13).
"""
import time, itertools
import z3

TWO32 = 2 ** 32


class Quant:
    """universal hypothesis / goal  forall k1..kn : guard && range(k) ==> body(k)."""
    def __init__(self, var, lo, hi, fn, text='', guard=None):
        self.vars = [var]; self.lo = lo; self.hi = hi
        self.rangefn = (lambda k, lo=lo, hi=hi: z3.And(lo <= k, k < hi))
        self.fn = fn; self.text = text; self.guard = guard
        self._pat = None

    @classmethod
    def multi(cls, vars_, rangefn, fn, text='', guard=None):
        q = cls.__new__(cls)
        q.vars = list(vars_); q.lo = None; q.hi = None; q.rangefn = rangefn; q.fn = fn; q.text = text; q.guard = guard; q._pat = None
        return q

    @property
    def var(self): return self.vars[0]

    def inst(self, *ks):
        b = self.fn(*ks)
        extras = list(getattr(self.fn, 'extras', None) or [])     # axiom instances generated while evaluating the body
        rng = self.rangefn(*ks)
        if self.guard is not None: rng = z3.And(self.guard, rng)
        r = z3.Implies(rng, b)
        return z3.And(r, *extras) if extras else r

    def range_cond(self, *ks):
        rng = self.rangefn(*ks)
        return z3.And(self.guard, rng) if self.guard is not None else rng

    def as_forall(self):
        ks = [z3.Int('%s!q%d' % (v, id(self) % 100000)) for v in self.vars]
        return z3.ForAll(ks, self.inst(*ks))

    def patterns(self):
        """per variable: offsets c such that the body reads some array at k + c"""
        if self._pat is None:
            ks = [z3.Int('%s!p' % v) for v in self.vars]
            b = self.inst(*ks)
            pats = []
            its = index_terms([b])
            for k in ks:
                offs = set()
                for idx in its:
                    if contains(idx, k):
                        d = z3.simplify(idx - k)
                        if z3.is_int_value(d): offs.add(d.as_long())
                if not offs: offs.add(0)
                pats.append(sorted(offs))
            self._pat = pats
        return self._pat


def contains(e, v):
    seen = set()
    def rec(x):
        if x.get_id() in seen: return False
        seen.add(x.get_id())
        if x.eq(v): return True
        return any(rec(c) for c in x.children())
    return rec(e)


def subterms(fs):
    seen = {}
    stack = list(fs)
    while stack:
        e = stack.pop()
        i = e.get_id()
        if i in seen: continue
        seen[i] = e
        if z3.is_quantifier(e):
            stack.append(e.body())
        else:
            stack.extend(e.children())
    return seen.values()


def index_terms(fs):
    out = {}
    for e in subterms(fs):
        if z3.is_app(e) and e.decl().kind() in (z3.Z3_OP_SELECT, z3.Z3_OP_STORE):
            idx = e.arg(1)
            if not has_bound_var(idx):
                out[idx.get_id()] = idx
        elif z3.is_app(e) and e.decl().kind() == z3.Z3_OP_UNINTERPRETED and e.num_args() > 0:
            for a in e.children():
                if a.sort().kind() == z3.Z3_INT_SORT and not has_bound_var(a):
                    out[a.get_id()] = a
    return list(out.values())


def has_bound_var(e):
    for s in subterms([e]):
        if z3.is_var(s): return True
    return False


def is_nonlinear(fs):
    for e in subterms(fs):
        if not z3.is_app(e): continue
        k = e.decl().kind()
        if k == z3.Z3_OP_MUL:
            nn = [c for c in e.children() if not (z3.is_int_value(c) or z3.is_rational_value(c) or z3.is_algebraic_value(c))]
            if len(nn) >= 2: return True
        elif k in (z3.Z3_OP_DIV, z3.Z3_OP_IDIV, z3.Z3_OP_MOD, z3.Z3_OP_REM):
            d = e.arg(1)
            if not (z3.is_int_value(d) or z3.is_rational_value(d)): return True
        elif k == z3.Z3_OP_POWER:
            return True
    return False


def free_consts(e, acc=None):
    acc = acc if acc is not None else {}
    for s in subterms([e]):
        if z3.is_app(s) and s.num_args() == 0 and s.decl().kind() == z3.Z3_OP_UNINTERPRETED:
            acc[s.get_id()] = s
        elif z3.is_app(s) and s.num_args() > 0 and s.decl().kind() == z3.Z3_OP_UNINTERPRETED:
            acc['f:' + s.decl().name()] = s.decl()
    return acc


_IOF = {}


def _int_only_formula(h):
    key = h.get_id()
    hit = _IOF.get(key)
    if hit is not None and hit[0].eq(h): return hit[1]
    r = _int_only_formula0(h)
    _IOF[key] = (h, r)
    return r


_SYMS = {}


def nonint_syms(h):
    """uninterpreted symbols of a formula that are not Int constants (arrays, reals, booleans, functions)"""
    key = h.get_id()
    hit = _SYMS.get(key)
    if hit is not None and hit[0].eq(h): return hit[1]
    out = set()
    for s_ in subterms([h]):
        if z3.is_app(s_) and s_.decl().kind() == z3.Z3_OP_UNINTERPRETED:
            if s_.num_args() == 0:
                if s_.sort().kind() == z3.Z3_ARRAY_SORT:
                    rng = s_.sort()
                    while rng.kind() == z3.Z3_ARRAY_SORT: rng = rng.range()
                    # arrays of integers (row lengths, index tables) carry shape facts: treated like integer symbols
                    if rng.kind() != z3.Z3_INT_SORT: out.add('@' + s_.decl().name())
                elif s_.sort().kind() != z3.Z3_INT_SORT: out.add(s_.decl().name())
            else:
                out.add('f:' + s_.decl().name())
    _SYMS[key] = (h, out)
    return out


def coarse_relevant(hyps, goal, rounds=4):
    """cheap cone of influence before elimination: drop hypotheses about arrays/reals unrelated to the goal"""
    syms = set(nonint_syms(goal))
    if not syms: return list(hyps)
    hs = [(h, nonint_syms(h)) for h in hyps]
    # only hypotheses that talk about arrays can be dropped (scalar path conditions may decide integer cases)
    keep = [not any(x.startswith('@') for x in sy) for (h, sy) in hs]
    for i, k in enumerate(keep):
        if k: syms |= hs[i][1]
    for _ in range(rounds):
        changed = False
        for i, (h, sy) in enumerate(hs):
            if not keep[i] and (sy & syms):
                keep[i] = True; syms |= sy; changed = True
        if not changed: break
    return [h for (h, _), k in zip(hs, keep) if k]


def _int_only_formula0(h):
    for s_ in subterms([h]):
        k = s_.sort().kind()
        if k == z3.Z3_REAL_SORT or k == z3.Z3_ARRAY_SORT: return False
        if z3.is_quantifier(s_): return False
        if z3.is_app(s_) and s_.decl().kind() == z3.Z3_OP_UNINTERPRETED and s_.num_args() > 0: return False
    return True


def real_syms(e):
    out = set()
    for s_ in subterms([e]):
        if z3.is_app(s_) and s_.num_args() == 0 and s_.decl().kind() == z3.Z3_OP_UNINTERPRETED and s_.sort().kind() in (z3.Z3_REAL_SORT, z3.Z3_BOOL_SORT):
            out.add(s_.get_id())
    return out


def real_relevant(hyps, goal, rounds=8):
    """keep hypotheses connected to the goal through Real/Bool symbols (integer index symbols do not connect)"""
    syms = real_syms(goal)
    if not syms: return list(hyps)        # goal `false` (unreachability): every hypothesis matters
    hs = [(h, real_syms(h)) for h in hyps]
    keep = [not sy for (h, sy) in hs]       # purely integer facts are always kept (cheap, and they carry shapes)
    for _ in range(rounds):
        changed = False
        for i, (h, sy) in enumerate(hs):
            if not keep[i] and (sy & syms):
                keep[i] = True; syms |= sy; changed = True
        if not changed: break
    return [h for (h, _), k in zip(hs, keep) if k]


def relevant(hyps, goal, rounds=6):
    """cone of influence: keep hypotheses that (transitively) share symbols with the goal."""
    syms = set(free_consts(goal).keys())
    hs = [(h, set(free_consts(h).keys())) for h in hyps]
    keep = [False] * len(hs)
    for _ in range(rounds):
        changed = False
        for i, (h, s) in enumerate(hs):
            if not keep[i] and (s & syms or not s):
                keep[i] = True; syms |= s; changed = True
        if not changed: break
    return [h for (h, _), k in zip(hs, keep) if k]


# ---------------------------------------------------------------- array / UF elimination

class IntOracle:
    """decides (dis)equalities between index terms from the integer-only hypotheses"""
    def __init__(self, hyps):
        self.s = z3.Solver(); self.s.set('timeout', 200)
        for h in hyps: self.s.add(h)
        self.cache = {}

    def rel(self, a, b):
        """'eq' | 'ne' | None"""
        d = z3.simplify(a - b)
        if z3.is_int_value(d): return 'eq' if d.as_long() == 0 else 'ne'
        key = d.get_id()
        if key in self.cache: return self.cache[key][1]
        r = None
        self.s.push(); self.s.add(a != b)
        if self.s.check() == z3.unsat: r = 'eq'
        self.s.pop()
        if r is None:
            self.s.push(); self.s.add(a == b)
            if self.s.check() == z3.unsat: r = 'ne'
            self.s.pop()
        self.cache[key] = (d, r)      # keep d alive: AST ids are reused after garbage collection
        return r


class Elim:
    def __init__(self, oracle=None):
        self.oracle = oracle
        self.memo = {}
        self.reads = {}     # head name -> list of (index tuple, fresh const)
        self.n = 0
        self.ok = True

    def fresh(self, sort, hint):
        self.n += 1
        return z3.Const('%s!r%d' % (hint, self.n), sort)

    def sel(self, a, idxs):
        """read array term a at index list idxs (idxs outermost first), pushing through store/ite/const."""
        if not idxs:
            return a
        k = a.decl().kind() if z3.is_app(a) else None
        i = idxs[0]
        if k == z3.Z3_OP_STORE:
            base, j, v = a.arg(0), self.rw(a.arg(1)), a.arg(2)
            d = z3.simplify(i - j)
            if z3.is_int_value(d):
                if d.as_long() == 0: return self.sel(v, idxs[1:]) if idxs[1:] else self.rw(v)
                return self.sel(base, idxs)
            if self.oracle is not None:
                rr = self.oracle.rel(i, j)
                if rr == 'eq': return self.sel(v, idxs[1:]) if idxs[1:] else self.rw(v)
                if rr == 'ne': return self.sel(base, idxs)
            hit = self.sel(v, idxs[1:]) if idxs[1:] else self.rw(v)
            return z3.If(i == j, hit, self.sel(base, idxs))
        if k == z3.Z3_OP_ITE:
            return z3.If(self.rw(a.arg(0)), self.sel(a.arg(1), idxs), self.sel(a.arg(2), idxs))
        if k == z3.Z3_OP_CONST_ARRAY:
            return self.sel(a.arg(0), idxs[1:]) if idxs[1:] else self.rw(a.arg(0))
        if k == z3.Z3_OP_SELECT:
            return self.sel(a.arg(0), [self.rw(a.arg(1))] + idxs)
        if k == z3.Z3_OP_UNINTERPRETED and a.num_args() == 0:
            rng = a.sort()
            for _ in idxs: rng = rng.range()
            if rng.kind() == z3.Z3_ARRAY_SORT:
                self.ok = False
                return None
            return self.read(a.decl().name(), [z3.simplify(x) for x in idxs], rng)
        self.ok = False
        return None

    def read(self, head, idxs, sort):
        lst = self.reads.setdefault(head, [])
        key = tuple(x.get_id() for x in idxs)
        for k2, ix, c in lst:
            if k2 == key: return c
        if self.oracle is not None and all(x.sort().kind() == z3.Z3_INT_SORT for x in idxs):
            for k2, ix, c in lst:
                if all(self.oracle.rel(a, b) == 'eq' for a, b in zip(ix, idxs)): return c
        c = self.fresh(sort, head.split('!')[0])
        lst.append((key, idxs, c))
        return c

    def rw(self, e):
        i = e.get_id()
        if i in self.memo: return self.memo[i]
        r = self._rw(e)
        self.memo[i] = r
        return r

    def _rw(self, e):
        if not self.ok: return e
        if z3.is_quantifier(e) or z3.is_var(e):
            self.ok = False; return e
        if not z3.is_app(e): return e
        k = e.decl().kind()
        if k == z3.Z3_OP_SELECT:
            r = self.sel(e.arg(0), [self.rw(e.arg(1))])
            if r is None: self.ok = False; return e
            return r
        if e.sort().kind() == z3.Z3_ARRAY_SORT and k != z3.Z3_OP_UNINTERPRETED:
            self.ok = False; return e
        if k == z3.Z3_OP_EQ and e.arg(0).sort().kind() == z3.Z3_ARRAY_SORT:
            self.ok = False; return e
        ch = [self.rw(c) for c in e.children()]
        if not self.ok: return e
        if k == z3.Z3_OP_UNINTERPRETED and e.num_args() > 0:
            return self.read('f:' + e.decl().name(), [z3.simplify(c) for c in ch], e.sort())
        if not ch: return e
        if all(a.eq(b) for a, b in zip(ch, e.children())): return e
        return e.decl()(*ch)

    def congruence(self):
        out = []
        for head, lst in self.reads.items():
            for (k1, i1, c1), (k2, i2, c2) in itertools.combinations(lst, 2):
                conds = []
                distinct = False
                for a, b in zip(i1, i2):
                    if self.oracle is not None and a.sort().kind() == z3.Z3_INT_SORT:
                        rr = self.oracle.rel(a, b)
                        if rr == 'ne': distinct = True; break
                        if rr == 'eq': continue
                    if a.sort().kind() == z3.Z3_INT_SORT or a.sort().kind() == z3.Z3_REAL_SORT:
                        d = z3.simplify(a - b)
                        if z3.is_int_value(d) or z3.is_rational_value(d):
                            if (d.as_long() if z3.is_int_value(d) else d.as_fraction()) != 0:
                                distinct = True; break
                            continue
                    conds.append(a == b)
                if distinct: continue
                out.append(z3.Implies(z3.And(*conds) if conds else z3.BoolVal(True), c1 == c2))
        return out


# ---------------------------------------------------------------- Int -> Real relaxation

class Relax:
    """Replace Int constants by Real constants after tightening integer comparisons
    (a < b becomes a <= b - 1, a != b becomes a <= b-1 or a >= b+1).  Sound for unsat."""
    def __init__(self):
        self.memo = {}
        self.ok = True
        self.tri = {}      # trichotomy facts for compared integer pairs (keeps the relaxation tight under negation)

    def rx(self, e):
        i = e.get_id()
        if i in self.memo: return self.memo[i]
        r = self._rx(e)
        self.memo[i] = r
        return r

    def _rx(self, e):
        if not z3.is_app(e):
            self.ok = False; return e
        k = e.decl().kind()
        if z3.is_int_value(e): return z3.RealVal(e.as_long())
        if k == z3.Z3_OP_UNINTERPRETED and e.num_args() == 0:
            if e.sort().kind() == z3.Z3_INT_SORT: return z3.Real(e.decl().name() + '!R')
            return e
        ch0 = e.children()
        intcmp = k in (z3.Z3_OP_LT, z3.Z3_OP_GT, z3.Z3_OP_LE, z3.Z3_OP_GE, z3.Z3_OP_EQ, z3.Z3_OP_DISTINCT) and \
            len(ch0) == 2 and ch0[0].sort().kind() == z3.Z3_INT_SORT
        if k == z3.Z3_OP_TO_INT:
            # floor of a real term: a fresh (relaxed) integer r with r <= t < r + 1; equal terms get the same r (memo)
            t_ = self.rx(ch0[0])
            if not self.ok: return e
            r_ = z3.Real('toint!%d!R' % len(self.tri))
            self.tri[('toint', e.get_id())] = (e, r_, z3.And(r_ <= t_, t_ < r_ + 1))
            return r_
        if k in (z3.Z3_OP_IDIV, z3.Z3_OP_MOD) and z3.is_int_value(ch0[1]) and ch0[1].as_long() > 0:
            # integer division by a positive constant c: a fresh (relaxed) integer q with c q <= t <= c q + c - 1; t mod c = t - c q
            c_ = ch0[1].as_long()
            t_ = self.rx(ch0[0])
            if not self.ok: return e
            key_ = ('toint', 'div', ch0[0].get_id(), c_)
            if key_ not in self.tri:
                q_ = z3.Real('idiv!%d!R' % len(self.tri))
                self.tri[key_] = (ch0[0], q_, z3.And(c_ * q_ <= t_, t_ <= c_ * q_ + (c_ - 1)))
            q_ = self.tri[key_][1]
            return q_ if k == z3.Z3_OP_IDIV else t_ - c_ * q_
        if k in (z3.Z3_OP_IDIV, z3.Z3_OP_MOD, z3.Z3_OP_REM, z3.Z3_OP_IS_INT):
            self.ok = False; return e
        ch = [self.rx(c) for c in ch0]
        if not self.ok: return e
        if k == z3.Z3_OP_TO_REAL: return ch[0]
        if intcmp:
            a, b = ch
            if len(self.tri) < 400:
                self.tri.setdefault((a.get_id(), b.get_id()), (a, b, z3.Or(a <= b - 1, a == b, a >= b + 1)))
            if k == z3.Z3_OP_LT: return a <= b - 1
            if k == z3.Z3_OP_GT: return a >= b + 1
            if k == z3.Z3_OP_LE: return a <= b
            if k == z3.Z3_OP_GE: return a >= b
            if k == z3.Z3_OP_EQ: return a == b
            return z3.Or(a <= b - 1, a >= b + 1)
        if k == z3.Z3_OP_ADD: return z3.Sum(ch) if len(ch) > 2 else ch[0] + ch[1]
        if k == z3.Z3_OP_SUB:
            r = ch[0]
            for c in ch[1:]: r = r - c
            return r
        if k == z3.Z3_OP_MUL:
            r = ch[0]
            for c in ch[1:]: r = r * c
            return r
        if k == z3.Z3_OP_UMINUS: return -ch[0]
        if k == z3.Z3_OP_ITE: return z3.If(ch[0], ch[1], ch[2])
        if k == z3.Z3_OP_DIV: return ch[0] / ch[1]
        if k == z3.Z3_OP_POWER: return ch[0] ** ch[1]
        if k in (z3.Z3_OP_LT, z3.Z3_OP_GT, z3.Z3_OP_LE, z3.Z3_OP_GE, z3.Z3_OP_EQ, z3.Z3_OP_DISTINCT, z3.Z3_OP_AND, z3.Z3_OP_OR,
                 z3.Z3_OP_NOT, z3.Z3_OP_IMPLIES, z3.Z3_OP_XOR, z3.Z3_OP_IFF if hasattr(z3, 'Z3_OP_IFF') else z3.Z3_OP_EQ):
            if k == z3.Z3_OP_AND: return z3.And(*ch)
            if k == z3.Z3_OP_OR: return z3.Or(*ch)
            if k == z3.Z3_OP_NOT: return z3.Not(ch[0])
            if k == z3.Z3_OP_IMPLIES: return z3.Implies(ch[0], ch[1])
            if k == z3.Z3_OP_EQ: return ch[0] == ch[1]
            if k == z3.Z3_OP_DISTINCT: return z3.Distinct(*ch)
            if k == z3.Z3_OP_LT: return ch[0] < ch[1]
            if k == z3.Z3_OP_GT: return ch[0] > ch[1]
            if k == z3.Z3_OP_LE: return ch[0] <= ch[1]
            if k == z3.Z3_OP_GE: return ch[0] >= ch[1]
            if k == z3.Z3_OP_XOR: return z3.Xor(ch[0], ch[1])
        if k in (z3.Z3_OP_TRUE, z3.Z3_OP_FALSE, z3.Z3_OP_ANUM): return e
        if z3.is_rational_value(e) or z3.is_algebraic_value(e): return e
        self.ok = False
        return e


# ---------------------------------------------------------------- B0: nonlinear terms as uninterpreted functions

class NLAbs:
    """replace nonlinear products/quotients by applications of uninterpreted functions (sound weakening):
    obligations that only need the *facts supplied by lemmas* plus linear/congruence reasoning are decided at once"""
    def __init__(self):
        self.memo = {}
        self.mulR = z3.Function('nl!mul', z3.RealSort(), z3.RealSort(), z3.RealSort())
        self.divR = z3.Function('nl!div', z3.RealSort(), z3.RealSort(), z3.RealSort())
        self.mulI = z3.Function('nl!imul', z3.IntSort(), z3.IntSort(), z3.IntSort())
        self.ok = True
        self.side = []; self.prods = {}

    def _num_leaves(self, t, depth=0):
        if depth > 6: return False
        if z3.is_app(t) and t.decl().kind() == z3.Z3_OP_ITE:
            return self._num_leaves(t.arg(1), depth + 1) and self._num_leaves(t.arg(2), depth + 1)
        return z3.is_int_value(t) or z3.is_rational_value(t)

    def ab(self, e):
        i = e.get_id()
        if i in self.memo: return self.memo[i][1]
        r = self._ab(e); self.memo[i] = (e, r)
        return r

    def _ab(self, e):
        if not z3.is_app(e): self.ok = False; return e
        k = e.decl().kind()
        ch0 = e.children()
        if not ch0: return e
        ch = [self.ab(c) for c in ch0]
        if not self.ok: return e
        isnum = lambda c: z3.is_int_value(c) or z3.is_rational_value(c) or z3.is_algebraic_value(c)
        if k == z3.Z3_OP_MUL:
            nums = [c for c in ch if isnum(c)]; rest = [c for c in ch if not isnum(c)]
            # distribute over an if-then-else factor whose leaves are numerals (e.g. the value of Sign(x)):
            # c * ite(p, 1, -1) * y  ==>  ite(p, c*y, -c*y), which is linear again
            for idx, c in enumerate(rest):
                if z3.is_app(c) and c.decl().kind() == z3.Z3_OP_TO_REAL and z3.is_app(c.arg(0)) and c.arg(0).decl().kind() == z3.Z3_OP_ITE:
                    c = c.arg(0)
                if z3.is_app(c) and c.decl().kind() == z3.Z3_OP_ITE and self._num_leaves(c) and len(rest) >= 2:
                    others = nums + rest[:idx] + rest[idx + 1:]
                    def build(t, others=others):
                        if z3.is_app(t) and t.decl().kind() == z3.Z3_OP_ITE:
                            return z3.If(t.arg(0), build(t.arg(1)), build(t.arg(2)))
                        prod = z3.RealVal(t.as_long()) if (z3.is_int_value(t) and e.sort().kind() == z3.Z3_REAL_SORT) else t
                        for o in others: prod = prod * o
                        return self.ab(z3.simplify(prod))
                    return build(c)
            if len(rest) >= 2:
                f = self.mulR if e.sort().kind() == z3.Z3_REAL_SORT else self.mulI
                # a deterministic order (independent of z3's term numbering, hence of what was solved before in this process) ...
                rest = sorted(rest, key=lambda t: t.sexpr())
                def chain(fs):
                    acc_ = fs[0]
                    for c_ in fs[1:]: acc_ = f(acc_, c_)
                    return acc_
                acc = chain(rest)
                # ... and commutativity/associativity instances for this product, so that the same product written in another
                # order or association (or with equal factors under other names) is recognised by congruence
                if len(rest) <= 4:
                    key_ = tuple(t.get_id() for t in rest)
                    if key_ not in self.prods:
                        self.prods[key_] = rest
                        for perm in itertools.permutations(range(len(rest))):
                            if list(perm) == sorted(perm): continue
                            self.side.append(acc == chain([rest[i_] for i_ in perm]))
                for c in nums: acc = c * acc
                return acc
        if k == z3.Z3_OP_DIV and not isnum(ch[1]):
            return self.divR(ch[0], ch[1])
        if k in (z3.Z3_OP_IDIV, z3.Z3_OP_MOD, z3.Z3_OP_REM, z3.Z3_OP_POWER) and not isnum(ch[1]):
            self.ok = False; return e
        if all(a.eq(b) for a, b in zip(ch, ch0)): return e
        try:
            return e.decl()(*ch)
        except Exception:
            self.ok = False; return e


# ---------------------------------------------------------------- lazy combination: nlsat for reals, LIA for index atoms

class IntAbs:
    """abstract atoms over Int terms by Boolean constants"""
    def __init__(self):
        self.memo = {}; self.atoms = {}; self.ok = True; self.n = 0

    def ab(self, e):
        i = e.get_id()
        if i in self.memo: return self.memo[i]
        r = self._ab(e); self.memo[i] = r
        return r

    def _ab(self, e):
        if not z3.is_app(e): self.ok = False; return e
        k = e.decl().kind()
        ch = e.children()
        if e.sort().kind() == z3.Z3_BOOL_SORT and k in (z3.Z3_OP_LT, z3.Z3_OP_GT, z3.Z3_OP_LE, z3.Z3_OP_GE, z3.Z3_OP_EQ, z3.Z3_OP_DISTINCT) \
                and ch and ch[0].sort().kind() == z3.Z3_INT_SORT:
            for c in ch:
                for sub in subterms([c]):
                    if sub.sort().kind() == z3.Z3_REAL_SORT: self.ok = False; return e
            self.n += 1
            b = z3.Bool('ia!%d' % self.n)
            self.atoms[b.get_id()] = (b, e)
            return b
        if e.sort().kind() == z3.Z3_INT_SORT:
            self.ok = False; return e
        if k == z3.Z3_OP_UNINTERPRETED and e.sort().kind() == z3.Z3_BOOL_SORT and not ch:
            return e
        if not ch: return e
        nc = [self.ab(c) for c in ch]
        if not self.ok: return e
        if all(a.eq(b) for a, b in zip(nc, ch)): return e
        return e.decl()(*nc)


def decide_int_atoms(fs, int_h, limit=400):
    """replace integer atoms that the integer hypotheses decide by true/false (prunes ite branches)"""
    ia = IntAbs()
    for f in fs: ia.ab(f)
    if not ia.atoms: return fs
    s = z3.Solver(); s.set('timeout', 150)
    for h in int_h: s.add(h)
    if s.check() == z3.unsat: return fs + [z3.BoolVal(False)]
    subs = []
    for n_, (b, a) in enumerate(list(ia.atoms.values())[:limit]):
        s.push(); s.add(z3.Not(a)); r = s.check(); s.pop()
        if r == z3.unsat: subs.append((a, z3.BoolVal(True))); continue
        s.push(); s.add(a); r = s.check(); s.pop()
        if r == z3.unsat: subs.append((a, z3.BoolVal(False)))
    if not subs: return fs
    out = [z3.simplify(z3.substitute(f, *subs)) for f in fs]
    return [f for f in out if not z3.is_true(f)]


def lazy_combination(fs, budget, want_models=False):
    """fs: quantifier-free, array-free formulas over Int and Real.  returns 'unsat' | 'sat' | 'unknown'"""
    ia = IntAbs()
    afs = [ia.ab(f) for f in fs]
    if not ia.ok: return 'n/a', 0
    t0 = time.time()
    sr = z3.Tactic('qfnra-nlsat').solver() if any(c.sort().kind() == z3.Z3_REAL_SORT for f in afs for c in subterms([f])) else z3.Solver()
    for f in afs: sr.add(f)
    atoms = list(ia.atoms.values())
    it = 0
    while True:
        it += 1
        left = budget - (time.time() - t0)
        if left <= 0 or it > 400: return 'unknown', it
        r, _ = _check(sr, left * 1000)
        if r == 'unsat': return 'unsat', it
        if r != 'sat': return 'unknown', it
        m = sr.model()
        lits = []
        for b, a in atoms:
            v = m.eval(b, model_completion=False)
            if z3.is_true(v): lits.append((b, a, True))
            elif z3.is_false(v): lits.append((b, a, False))
        si = z3.Solver(); si.set('timeout', 5000)
        track = {}
        for n_, (b, a, val) in enumerate(lits):
            p = z3.Bool('tr!%d' % n_)
            track[p.get_id()] = (b, val)
            si.add(z3.Implies(p, a if val else z3.Not(a)))
        r2 = si.check(*[z3.Bool('tr!%d' % n_) for n_ in range(len(lits))])
        if r2 == z3.sat:
            if want_models: return 'sat', (m, si.model())
            return 'sat', it
        if r2 != z3.unsat: return 'unknown', it
        core = si.unsat_core()
        clause = []
        for p in core:
            b, val = track[p.get_id()]
            clause.append(z3.Not(b) if val else b)
        if not clause: return 'unsat', it
        sr.add(z3.Or(*clause))


# ---------------------------------------------------------------- the procedure

def _check(solver, ms):
    solver.set('timeout', int(ms))
    t0 = time.time()
    try:
        r = solver.check()
    except z3.Z3Exception as ex:
        return 'unknown', time.time() - t0
    return str(r), time.time() - t0


def instantiate(quants, plain, goal, extra_terms=(), rounds=2, cap=600, goal_only=False):
    insts = []
    done = set(); alive = []
    base = ([] if goal_only else list(plain)) + [goal]
    for rnd in range(rounds):
        terms = list(extra_terms) + index_terms([goal]) + index_terms(base + ([] if goal_only else insts))
        tset = {}
        for t in terms:
            if t.sort().kind() == z3.Z3_INT_SORT and t.get_id() not in tset: tset[t.get_id()] = t
        new = []
        for q in quants:
            pats = q.patterns()
            cands = []
            for offs in pats:
                cs = {}
                for t in tset.values():
                    for c in offs:
                        k = z3.simplify(t - c) if c else t
                        cs[k.get_id()] = k
                cands.append(list(cs.values()))
            total = 1
            for c in cands: total *= max(1, len(c))
            if total > 400:
                # too many combinations: keep the candidates closest to the goal (skolems and goal terms first)
                lim = max(2, int(400 ** (1.0 / len(cands))))
                cands = [c[:lim] for c in cands]
            for combo in itertools.product(*cands):
                key = (id(q),) + tuple(k.get_id() for k in combo)
                if key in done: continue
                done.add(key); alive.append(combo)
                new.append(q.inst(*combo))
                if len(insts) + len(new) > cap: break
        if not new: break
        insts += new
    return insts


def refine_loop(plain, quants, goal, skolems, budget):
    """counterexample-guided instantiation on the scalarised query: solve with the instances chosen so far,
    evaluate the remaining candidate instances in the model, add the falsified ones, repeat"""
    t0 = time.time()
    active = instantiate(quants, plain, goal, extra_terms=skolems, goal_only=True, rounds=1)
    cands = instantiate(quants, plain, goal, extra_terms=skolems, goal_only=False, rounds=2)
    act_ids = set(a.get_id() for a in active)
    ng = z3.Not(goal)
    for rnd in range(30):
        left = budget - (time.time() - t0)
        if left <= 0: return 'unknown', rnd
        allh = coarse_relevant(plain + active, goal)
        int_h = [h for h in allh if _int_only_formula(h)]
        el = Elim(IntOracle(int_h))
        rest = [el.rw(h) for h in allh if not _int_only_formula(h)]
        gq = el.rw(ng)
        if not el.ok: return 'unknown', 'elim'
        fs = rest + el.congruence() + int_h + [gq]
        s = z3.Solver()
        for f in fs: s.add(f)
        r, _ = _check(s, min(left, 3.0) * 1000)
        if r == 'unsat': return 'unsat', rnd
        subs = None
        if r == 'sat':
            m = s.model()
        else:
            left = budget - (time.time() - t0)
            r, mm = lazy_combination([z3.simplify(f) for f in fs], max(1.0, min(left, 10.0)), want_models=True)
            if r == 'unsat': return 'unsat', rnd
            if r != 'sat': return 'unknown', rnd
            mr, mi = mm
            subs = []
            for mdl in (mr, mi):
                for d in mdl.decls():
                    if d.arity() == 0 and not d.name().startswith('ia!') and not d.name().startswith('tr!'):
                        subs.append((d(), mdl[d]))
            m = None
        viol = []
        for c in cands:
            if c.get_id() in act_ids: continue
            cc = el.rw(c)
            if not el.ok: return 'unknown', 'elim'
            if m is not None:
                try:
                    v = m.eval(cc, model_completion=True)
                except z3.Z3Exception:
                    continue
                bad = z3.is_false(v)
            else:
                v = z3.simplify(z3.substitute(cc, *subs)) if subs else cc
                bad = not z3.is_true(v)
            if bad:
                viol.append(c)
                if len(viol) >= 6: break
        # congruence between new and old reads is only enforced after re-solving, so a round without
        # falsified instances needs one confirmation round with all candidates' reads registered
        if not viol:
            return 'sat', (model_summary(m) if m is not None else dict((str(a), str(b)) for a, b in subs[:60]))
        for c in viol:
            active.append(c); act_ids.add(c.get_id())
    return 'unknown', 30


def mbqi_refine(plain, quants, goal, skolems, budget):
    """model-based refutation with z3's own arrays and functions (no elimination needed): solve the instantiated query, then check
    every quantified hypothesis *exactly* in the model -- substitute the model into `k in range and not body(k)` and ask for a k.
    A counter-instance is added and the loop repeats; if none exists the model satisfies all hypotheses and refutes the goal."""
    t0 = time.time()
    active = instantiate(quants, plain, goal, extra_terms=skolems, goal_only=True, rounds=1)
    ng = z3.Not(goal)
    seen = set(a.get_id() for a in active)
    for rnd in range(25):
        left = budget - (time.time() - t0)
        if left <= 0: return 'unknown', rnd
        s = z3.Solver()
        for h in plain: s.add(h)
        for h in active: s.add(h)
        s.add(ng)
        r, _ = _check(s, min(left, 5.0) * 1000)
        if r == 'unsat': return 'unsat', rnd
        if r != 'sat': return 'unknown', rnd
        m = s.model()
        added = 0
        for q in quants:
            ks = [z3.Int('mbqi!k%d' % i_) for i_ in range(len(q.vars))]
            try:
                # the bound variables stay symbolic (no model completion: completion would pin them to a default value);
                # symbols the model leaves open stay open too, which only makes the check stricter
                e = m.eval(z3.And(q.range_cond(*ks), z3.Not(q.inst(*ks))), model_completion=False)
            except z3.Z3Exception:
                return 'unknown', 'eval'
            s2 = z3.Solver(); s2.add(e)
            r2, _ = _check(s2, 2000)
            if r2 == 'unsat': continue
            if r2 != 'sat': return 'unknown', 'inner'
            m2 = s2.model()
            vals = [m2.eval(k_, model_completion=True) for k_ in ks]
            inst = q.inst(*vals)
            inst = z3.Implies(q.range_cond(*vals), inst)
            if inst.get_id() in seen: return 'unknown', 'repeat'
            seen.add(inst.get_id()); active.append(inst); added += 1
        if not added:
            return 'sat', model_summary(m)
    return 'unknown', 25


def model_summary(m, limit=60):
    out = {}
    try:
        for d in m.decls()[:limit]:
            if d.arity() == 0:
                out[d.name()] = str(m[d])
    except Exception:
        pass
    return out


def discharge(hyps, goal, budget=20.0, skolems=(), want_model=True):
    """returns dict(verdict, backend, seconds, model?)"""
    t_start = time.time()
    plain = [h for h in hyps if not isinstance(h, Quant)]
    quants = [h for h in hyps if isinstance(h, Quant)]
    ng = z3.Not(goal)
    nonlin = is_nonlinear(plain + [goal])
    nonlin_goal_heavy = False
    log = []

    def done(verdict, backend, model=None):
        return {'verdict': verdict, 'backend': backend, 'seconds': round(time.time() - t_start, 3), 'model': model, 'log': log}

    def confirm(insts_):
        """a 'sat' answer of tier B was obtained on a cone-of-influence subset of the hypotheses; before it is reported as a
        failure the *whole* (instantiated, eliminated) hypothesis set must be satisfiable too -- an infeasible path whose
        contradiction lies outside the cone proves the obligation.  returns 'sat' | 'unsat' | 'unknown'"""
        allh_ = list(plain) + list(insts_)
        int_h_ = [h for h in allh_ if _int_only_formula(h)]
        el_ = Elim(IntOracle(int_h_))
        rest_ = [el_.rw(h) for h in allh_ if not _int_only_formula(h)]
        gq_ = el_.rw(ng)
        if not el_.ok: return 'unknown'
        fs_ = [f for f in (z3.simplify(f) for f in rest_ + el_.congruence() + [gq_] + int_h_) if not z3.is_true(f)]
        s_ = z3.Solver()
        for f in fs_: s_.add(f)
        r_, dt_ = _check(s_, min(budget, 10.0) * 1000)
        log.append(('confirm:z3-smt-qf(all hypotheses)', r_, round(dt_, 3)))
        if r_ in ('sat', 'unsat'): return r_
        if not any(c.sort().kind() == z3.Z3_INT_SORT for f in fs_ for c in free_consts(f).values() if isinstance(c, z3.ExprRef)):
            rl_ = Relax(); rfs_ = [rl_.rx(f) for f in fs_]
            if rl_.ok:
                s_ = z3.Tactic('qfnra-nlsat').solver()
                for f in rfs_: s_.add(f)
                r_, dt_ = _check(s_, min(budget, 10.0) * 1000)
                log.append(('confirm:nlsat(all hypotheses)', r_, round(dt_, 3)))
                if r_ in ('sat', 'unsat'): return r_
        return 'unknown'

    def confirm_split(ctx, zmodel, insts_):
        """the whole set was too hard to re-check: the model found for the cone of influence extends to the whole set if the part
        that was dropped is satisfiable under the model's integer assignment and shares no other symbol with the cone"""
        if ctx is None: return 'unknown'
        kept_ids = set(f.get_id() for f in ctx['kept'])
        d1 = [f for f in ctx['rest'] + ctx['cong'] if f.get_id() not in kept_ids]
        allh_ids = set(h.get_id() for h in ctx['allh'])
        d0 = [h for h in list(plain) + list(insts_) if h.get_id() not in allh_ids]
        if not d1 and not d0: return 'sat'
        cone_syms = set()
        for f in ctx['kept'] + [ctx['gq']]: cone_syms |= real_syms(f)
        for f in d1:
            if real_syms(f) & cone_syms: return 'unknown'
        cone0 = set()
        for h in ctx['allh']: cone0 |= nonint_syms(h)
        for h in d0:
            if nonint_syms(h) & cone0: return 'unknown'
        sub = []
        if zmodel is not None:
            for d_ in zmodel.decls():
                if d_.arity() == 0 and d_.range().kind() == z3.Z3_INT_SORT:
                    sub.append((d_(), zmodel[d_]))
        s_ = z3.Solver()
        for f in d1 + d0 + ctx['int_h']:
            s_.add(z3.substitute(f, *sub) if sub else f)
        r_, dt_ = _check(s_, 5000)
        log.append(('confirm:dropped-part', r_, round(dt_, 3)))
        return 'sat' if r_ == 'sat' else 'unknown'

    def failed_or(backend, model, insts_, ctx=None, zmodel=None):
        c = confirm(insts_)
        if c == 'unknown': c = confirm_split(ctx, zmodel, insts_)
        if c == 'sat': return done('failed', backend, model)
        if c == 'unsat': return done('proved', backend + '+infeasible-path')
        return None

    # Tier A: z3 default solver, quantifiers/arrays/UF intact
    if not nonlin:
        s = z3.Solver()
        for h in plain: s.add(h)
        for q in quants: s.add(q.as_forall())
        s.add(ng)
        r, dt = _check(s, min(budget, 3.0 if quants else 10.0) * 1000)
        log.append(('A:z3-smt', r, round(dt, 3)))
        if r == 'unsat': return done('proved', 'z3-smt')
        if r == 'sat' and not quants:
            return done('failed', 'z3-smt', model_summary(s.model()) if want_model else None)
    for level in ((0, 1) if quants else (1,)):
        insts = instantiate(quants, plain, goal, extra_terms=skolems, goal_only=(level == 0), rounds=(1 if level == 0 else 2))
        last = (level == 1)
        # Tier B: eliminate quantifiers, arrays, UFs
        allh = coarse_relevant(plain + insts, goal)
        int_h = [h for h in allh if _int_only_formula(h)]
        oracle = IntOracle(int_h)
        el = Elim(oracle)
        rest = [el.rw(h) for h in allh if not _int_only_formula(h)]
        gq = el.rw(ng)
        if el.ok:
            cong = el.congruence()
            kept = real_relevant(rest + cong, gq)
            bctx = {'kept': kept, 'rest': rest, 'cong': cong, 'allh': allh, 'gq': gq, 'int_h': int_h}
            core = [f for f in (z3.simplify(f) for f in kept + [gq]) if not z3.is_true(f)]
            ints = [f for f in (z3.simplify(f) for f in int_h) if not z3.is_true(f)]
            verdict_b1 = None
            # B0: nonlinear terms abstracted to uninterpreted functions, linear + congruence reasoning only
            na = NLAbs()
            afs = [na.ab(f) for f in kept + [gq] + int_h]
            if na.ok:
                s = z3.Solver()
                for f in afs: s.add(f)
                for f in na.side[:4000]: s.add(f)
                r, dt = _check(s, 3000)
                log.append(('B0:abstract-linear', r, round(dt, 3)))
                if r == 'unsat': return done('proved', 'z3-smt-abstract')
                if r == 'sat':
                    # the abstraction orders the factors of a product by term identity; equal factors under different names
                    # (x == t hypotheses) defeat it.  Eliminate such equations first (equisatisfiable) and try once more.
                    try:
                        g_ = z3.Goal()
                        for f in kept + [gq] + int_h: g_.add(f)
                        sub_ = z3.Then(z3.Tactic('simplify'), z3.Tactic('solve-eqs'))(g_)
                        if len(sub_) == 1:
                            na2 = NLAbs()
                            afs2 = [na2.ab(f) for f in sub_[0]]
                            if na2.ok:
                                s = z3.Solver()
                                for f in afs2: s.add(f)
                                for f in na2.side[:4000]: s.add(f)
                                r2, dt2 = _check(s, 3000)
                                log.append(('B0:abstract-linear(solve-eqs)', r2, round(dt2, 3)))
                                if r2 == 'unsat': return done('proved', 'z3-smt-abstract')
                    except z3.Z3Exception:
                        pass
            for attempt in (0, 1):
                if attempt == 1:
                    core = decide_int_atoms(core, int_h)
                fs = core + ints
                if attempt == 0: log.append(('B:size', len(fs), len(insts)))
                # B1: relaxed to reals, nlsat
                rl = Relax()
                rfs = [rl.rx(f) for f in fs]
                if not rl.ok: break
                s = z3.Tactic('qfnra-nlsat').solver()
                for f in rfs: s.add(f)
                for _a, _b, f in rl.tri.values(): s.add(f)
                _ti = [v_[1] for k_, v_ in rl.tri.items() if k_[0] == 'toint'][:12]
                for i_ in range(len(_ti)):
                    for j_ in range(i_ + 1, len(_ti)):       # two floors are equal or at least one apart
                        s.add(z3.Or(_ti[i_] <= _ti[j_] - 1, _ti[i_] == _ti[j_], _ti[i_] >= _ti[j_] + 1))
                r, dt = _check(s, budget * 1000)
                log.append(('B1:nlsat-relaxed', r, round(dt, 3)))
                if r == 'unsat': return done('proved', 'z3-nlsat')
                verdict_b1 = r
                has_int = any(c.sort().kind() == z3.Z3_INT_SORT for f in fs for c in free_consts(f).values() if isinstance(c, z3.ExprRef))
                if r == 'sat' and not has_int and last:
                    v = failed_or('z3-nlsat', model_summary(s.model()) if want_model else None, insts, bctx, None)
                    if v is not None: return v
                if r == 'sat' and has_int and last:
                    # the relaxed model may happen to be integral: then it is a model of the mixed query itself (checked by evaluation)
                    try:
                        m_ = s.model(); subs_ = []; okm = True
                        consts_ = {}
                        for f in fs: consts_.update(free_consts(f))
                        for key_, c_ in consts_.items():
                            if not isinstance(c_, z3.ExprRef): okm = False; break          # an uninterpreted function survived: not evaluable
                            if c_.sort().kind() == z3.Z3_INT_SORT:
                                v_ = m_.eval(z3.Real(c_.decl().name() + '!R'), model_completion=True)
                                if not (z3.is_rational_value(v_) and v_.denominator_as_long() == 1): okm = False; break
                                subs_.append((c_, z3.IntVal(v_.numerator_as_long())))
                            elif c_.sort().kind() == z3.Z3_REAL_SORT:
                                v_ = m_.eval(c_, model_completion=True)
                                if not z3.is_rational_value(v_): okm = False; break
                                subs_.append((c_, v_))
                            elif c_.sort().kind() == z3.Z3_BOOL_SORT:
                                subs_.append((c_, m_.eval(c_, model_completion=True)))
                            else: okm = False; break
                        if okm and all(z3.is_true(z3.simplify(z3.substitute(f, *subs_))) for f in fs):
                            log.append(('B1:relaxed-model-is-integral', 'sat', 0))
                            v = failed_or('z3-nlsat(integral model, checked by evaluation)', dict((str(a_), str(b_)) for a_, b_ in subs_[:60]) if want_model else None, insts, bctx, None)
                            if v is not None: return v
                    except z3.Z3Exception:
                        pass
                if not has_int: break
                if attempt == 0 and r == 'unknown':
                    # nlsat ran out of time on the relaxed query: before the second relaxation give the default solver its short
                    # try on the mixed query (it often proves these at once; only an `unsat` is taken from this probe)
                    sp_ = z3.Solver()
                    for f in fs: sp_.add(f)
                    rp_, dtp_ = _check(sp_, 2500)
                    log.append(('B2p:z3-smt-qf(probe)', rp_, round(dtp_, 3)))
                    if rp_ == 'unsat': return done('proved', 'z3-smt-qf')
            # B2 (short): the default solver often decides mixed queries at once
            s = z3.Solver()
            for f in fs: s.add(f)
            r, dt = _check(s, 2500)
            log.append(('B2s:z3-smt-qf', r, round(dt, 3)))
            if r == 'unsat': return done('proved', 'z3-smt-qf')
            if r == 'sat' and last:
                v = failed_or('z3-smt-qf', model_summary(s.model()) if want_model else None, insts, bctx, s.model())
                if v is not None: return v
            # B1b: exact combination (nlsat for the reals, LIA for the index atoms)
            if verdict_b1 != 'unsat':
                r, its = lazy_combination(fs, budget if last else budget / 2)
                log.append(('B1b:nlsat+lia', r, its))
                if r == 'unsat': return done('proved', 'z3-nlsat+lia')
                if r == 'sat' and last:
                    v = failed_or('z3-nlsat+lia', None, insts)
                    if v is not None: return v
            # B2: mixed formula, default solver
            s = z3.Solver()
            for f in fs: s.add(f)
            r, dt = _check(s, (budget if last else budget / 4) * 1000)
            log.append(('B2:z3-smt-qf', r, round(dt, 3)))
            if r == 'unsat': return done('proved', 'z3-smt-qf')
            if r == 'sat' and last:
                v = failed_or('z3-smt-qf', model_summary(s.model()) if want_model else None, insts, bctx, s.model())
                if v is not None: return v
        else:
            log.append(('B:elim', 'not-applicable', 0))
            if level == 0:
                # array-valued equalities etc.: the default solver with the goal-directed instances often closes these at once
                s = z3.Solver()
                for h in plain: s.add(h)
                for h in insts: s.add(h)
                for q in quants: s.add(q.as_forall())
                s.add(ng)
                r, dt = _check(s, 4000)
                log.append(('C0:z3-smt-full(goal instances)', r, round(dt, 3)))
                if r == 'unsat': return done('proved', 'z3-smt-full')
        if level == 0 and quants:
            # Tier R: counterexample-guided instantiation (finds genuine counterexamples of the instantiated query)
            r, info = refine_loop(plain, quants, goal, skolems, min(budget, 20.0))
            log.append(('R:cegqi', r, info if not isinstance(info, dict) else 'model'))
            if r == 'unsat': return done('proved', 'z3-smt-cegqi')
            if r == 'sat':
                v = failed_or('z3-smt-cegqi', info if want_model else None, insts)
                if v is not None: return v
            if r == 'unknown' and not nonlin_goal_heavy:
                r, info = mbqi_refine(plain, quants, goal, skolems, min(budget, 15.0))
                log.append(('R2:mbqi', r, info if not isinstance(info, dict) else 'model'))
                if r == 'unsat': return done('proved', 'z3-smt-mbqi')
                if r == 'sat': return done('failed', 'z3-smt-mbqi(model checked against every quantified hypothesis)', info if want_model else None)
    # Tier C: everything to the default solver with instances added
    s = z3.Solver()
    for h in plain: s.add(h)
    for h in insts: s.add(h)
    for q in quants: s.add(q.as_forall())
    s.add(ng)
    r, dt = _check(s, budget * 1000)
    log.append(('C:z3-smt-full', r, round(dt, 3)))
    if r == 'unsat': return done('proved', 'z3-smt-full')
    if r == 'sat' and not quants:
        return done('failed', 'z3-smt-full', model_summary(s.model()) if want_model else None)
    if r == 'sat':
        return done('failed', 'z3-smt-full(inst)', model_summary(s.model()) if want_model else None)
    return done('undecided', 'none')
