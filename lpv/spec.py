"""Contract files: /verif/contracts/*.spec  (DESIGN.md section 2.2, appendix B).

Line oriented.  Blocks:

  define NAME(p1, p2) = expr
  spec NAME(int p1, real p2): real = expr          (uninterpreted spec function with unfolding)
  function <mangled-or-qualified-name>
      engines E1 E2
      inline
      ghost <type> <name>
      requires e / ensures e / exits_iff e / assigns lv, lv | nothing / decreases e
      callback f(t): requires e ; ensures e
      loop K
          invariant e / decreases e / assigns ...
  lemma NAME(type p, ...)
      requires e / ensures e

Clause expressions are C expressions plus  ==>, <==>, forall(k, lo, hi, e), exists(...), old(e),
old_loop(e), len(e), result.
"""
import re, os


class SpecError(Exception):
    pass


class X:
    """spec expression node"""
    def __init__(self, k, **a):
        self.k = k
        self.__dict__.update(a)

    def __repr__(self):
        return show(self)


TOK = re.compile(r'\s*(?:(\d+\.\d*(?:[eE][-+]?\d+)?|\.\d+(?:[eE][-+]?\d+)?|\d+[eE][-+]?\d+|\d+)|([A-Za-z_$][A-Za-z_0-9$]*(?:::[A-Za-z_][A-Za-z_0-9]*)*)|(<==>|==>|\|\||&&|==|!=|<=|>=|[-+*/%<>!()\[\].,?:])|"([^"]*)")')


def tokenize(s):
    out = []; i = 0
    s = s.rstrip()
    while i < len(s):
        m = TOK.match(s, i)
        if not m or m.end() == i:
            if s[i:].strip() == '': break
            raise SpecError('cannot tokenize at: %r' % s[i:i + 30])
        if m.group(1) is not None: out.append(('num', m.group(1)))
        elif m.group(2) is not None: out.append(('id', m.group(2)))
        elif m.group(3) is not None: out.append(('op', m.group(3)))
        else: out.append(('str', m.group(4)))
        i = m.end()
    return out


class Parser:
    def __init__(self, text):
        self.t = tokenize(text); self.i = 0; self.text = text

    def peek(self):
        return self.t[self.i] if self.i < len(self.t) else ('eof', None)

    def eat(self, v=None):
        tk = self.peek()
        if v is not None and tk[1] != v:
            raise SpecError('expected %r at token %d of %r (got %r)' % (v, self.i, self.text, tk[1]))
        self.i += 1
        return tk

    def parse(self):
        e = self.iff()
        if self.peek()[0] != 'eof':
            raise SpecError('trailing tokens in %r at %r' % (self.text, self.peek()))
        return e

    def iff(self):
        l = self.imp()
        while self.peek()[1] == '<==>':
            self.eat(); r = self.imp()
            l = X('bin', op='<==>', l=l, r=r)
        return l

    def imp(self):
        l = self.tern()
        if self.peek()[1] == '==>':
            self.eat(); r = self.imp()
            return X('bin', op='==>', l=l, r=r)
        return l

    def tern(self):
        c = self.lor()
        if self.peek()[1] == '?':
            self.eat(); a = self.tern(); self.eat(':'); b = self.tern()
            return X('cond', c=c, a=a, b=b)
        return c

    def _binl(self, sub, ops):
        l = sub()
        while self.peek()[0] == 'op' and self.peek()[1] in ops:
            op = self.eat()[1]; r = sub()
            l = X('bin', op=op, l=l, r=r)
        return l

    def lor(self): return self._binl(self.land, ('||',))
    def land(self): return self._binl(self.eq, ('&&',))
    def eq(self): return self._binl(self.rel, ('==', '!='))
    def rel(self): return self._binl(self.add, ('<', '<=', '>', '>='))
    def add(self): return self._binl(self.mul, ('+', '-'))
    def mul(self): return self._binl(self.unary, ('*', '/', '%'))

    def unary(self):
        tk = self.peek()
        if tk[0] == 'op' and tk[1] in ('-', '!', '+'):
            self.eat(); e = self.unary()
            if tk[1] == '+': return e
            return X('un', op=tk[1], e=e)
        return self.postfix()

    def postfix(self):
        e = self.primary()
        while True:
            tk = self.peek()
            if tk[1] == '[':
                self.eat(); i = self.iff(); self.eat(']')
                e = X('index', base=e, idx=i)
            elif tk[1] == '.':
                self.eat(); nm = self.eat()
                if nm[0] != 'id': raise SpecError('field name expected in %r' % self.text)
                e = X('field', base=e, name=nm[1])
            else:
                return e

    def primary(self):
        tk = self.eat()
        if tk[0] == 'num':
            txt = tk[1]
            if re.match(r'^\d+$', txt): return X('num', v=int(txt), text=txt)
            return X('num', v=float(txt), text=txt)
        if tk[0] == 'id':
            if self.peek()[1] == '(':
                self.eat('(')
                args = []
                if self.peek()[1] != ')':
                    args.append(self.iff())
                    while self.peek()[1] == ',':
                        self.eat(); args.append(self.iff())
                self.eat(')')
                nm = tk[1]
                if nm in ('forall', 'exists'):
                    if len(args) != 4 or args[0].k != 'name':
                        raise SpecError('%s(k, lo, hi, body) expected in %r' % (nm, self.text))
                    return X(nm, var=args[0].name, lo=args[1], hi=args[2], body=args[3])
                if nm == 'old':
                    return X('old', e=args[0])
                if nm == 'old_loop':
                    return X('old_loop', e=args[0])
                if nm == 'len':
                    return X('len', e=args[0])
                return X('call', name=nm, args=args)
            if tk[1] == 'true': return X('bool', v=True)
            if tk[1] == 'false': return X('bool', v=False)
            return X('name', name=tk[1])
        if tk[0] == 'str':
            return X('strlit', v=tk[1])
        if tk[1] == '(':
            e = self.iff(); self.eat(')')
            return e
        raise SpecError('unexpected token %r in %r' % (tk, self.text))


def parse_expr(text):
    return Parser(text).parse()


def show(e):
    k = e.k
    if k == 'num': return e.text
    if k == 'strlit': return '"%s"' % e.v
    if k == 'bool': return 'true' if e.v else 'false'
    if k == 'name': return e.name
    if k == 'field': return '%s.%s' % (show(e.base), e.name)
    if k == 'index': return '%s[%s]' % (show(e.base), show(e.idx))
    if k == 'un': return '%s(%s)' % (e.op, show(e.e))
    if k == 'bin': return '(%s %s %s)' % (show(e.l), e.op, show(e.r))
    if k == 'cond': return '(%s ? %s : %s)' % (show(e.c), show(e.a), show(e.b))
    if k in ('forall', 'exists'): return '%s(%s, %s, %s, %s)' % (k, e.var, show(e.lo), show(e.hi), show(e.body))
    if k in ('old', 'old_loop', 'len'): return '%s(%s)' % (k, show(e.e))
    if k == 'call': return '%s(%s)' % (e.name, ', '.join(show(a) for a in e.args))
    return '<%s>' % k


def subst(e, m):
    """substitute names by expressions (macro expansion); bound variables shadow."""
    k = e.k
    if k == 'name':
        return m.get(e.name, e)
    if k in ('num', 'bool', 'strlit'): return e
    if k == 'field': return X('field', base=subst(e.base, m), name=e.name)
    if k == 'index': return X('index', base=subst(e.base, m), idx=subst(e.idx, m))
    if k == 'un': return X('un', op=e.op, e=subst(e.e, m))
    if k == 'bin': return X('bin', op=e.op, l=subst(e.l, m), r=subst(e.r, m))
    if k == 'cond': return X('cond', c=subst(e.c, m), a=subst(e.a, m), b=subst(e.b, m))
    if k in ('forall', 'exists'):
        m2 = {a: b for a, b in m.items() if a != e.var}
        return X(k, var=e.var, lo=subst(e.lo, m), hi=subst(e.hi, m), body=subst(e.body, m2))
    if k in ('old', 'old_loop', 'len'): return X(k, e=subst(e.e, m))
    if k == 'call': return X('call', name=e.name, args=[subst(a, m) for a in e.args])
    raise SpecError('subst ' + k)


def names_in(e, acc=None, bound=()):
    acc = acc if acc is not None else set()
    k = e.k
    if k == 'name':
        if e.name not in bound: acc.add(e.name)
    elif k in ('forall', 'exists'):
        names_in(e.lo, acc, bound); names_in(e.hi, acc, bound); names_in(e.body, acc, tuple(bound) + (e.var,))
    else:
        for v in e.__dict__.values():
            if isinstance(v, X): names_in(v, acc, bound)
            elif isinstance(v, list):
                for a in v:
                    if isinstance(a, X): names_in(a, acc, bound)
    return acc


class Clause:
    def __init__(self, kind, expr, text, engines=None, label=None, line=None):
        self.kind = kind; self.expr = expr; self.text = text; self.engines = engines; self.label = label; self.line = line


class LoopSpec:
    def __init__(self, k):
        self.k = k; self.invariants = []; self.on_exit = []; self.on_return = []; self.summaries = []; self.uses_end = []; self.uses_base = []; self.decreases = None; self.assigns = None; self.ghost_updates = []; self.uses = []


class FuncSpec:
    def __init__(self, key):
        self.key = key
        self.engines = ['E2']
        self.inline = False
        self.requires = []; self.ensures = []; self.exits_iff = None; self.valid_iff = None
        self.assigns = None           # None = derive (nothing for const methods), list of X otherwise
        self.static_invs = {}         # local static name -> [Clause]
        self.captures = []            # (type, name) of lambda captures
        self.ghosts = []              # (type, name)
        self.loops = {}
        self.callbacks = {}           # param name -> dict(arg names, requires [X], ensures [X], uf name)
        self.decreases = None
        self.options = {}
        self.file = None
        self.inline_callees = set()
        self.returns_ref = None
        self.notes = []
        self.unroll = {}
        self.uses = []
        self.uses_post = []
        self.uses_after = {}
        self.ghost_state = []
        self.globals = []
        self.externs = set()


class Lemma:
    def __init__(self, name, params):
        self.name = name; self.params = params; self.requires = []; self.ensures = []; self.file = None
        self.options = {}; self.uses = []; self.uses_post = []; self.globals = []


class Relation:
    def __init__(self, name, key):
        self.name = name; self.key = key; self.requires = []; self.ensures = []; self.file = None
        self.options = {}; self.uses = []; self.uses_post = []; self.ghosts = []; self.callbacks = {}; self.share = []


class SpecFn:
    def __init__(self, name, params, rtype, body):
        self.name = name; self.params = params; self.rtype = rtype; self.body = body


class SpecDB:
    def __init__(self):
        self.defines = {}      # name -> (params, X)
        self.funcs = {}        # key -> FuncSpec
        self.lemmas = {}
        self.summary_ufs = {}    # loop-summary function name -> (function key, loop ordinal): one definition only
        self.specfns = {}
        self.relations = {}
        self.files = []

    def expand(self, e, depth=0):
        """expand define-macros (call and bare-name form)."""
        if depth > 40: raise SpecError('macro recursion')
        k = e.k
        if k == 'call' and e.name in self.defines:
            ps, body = self.defines[e.name]
            if len(ps) != len(e.args):
                raise SpecError('macro %s expects %d arguments' % (e.name, len(ps)))
            args = [self.expand(a, depth + 1) for a in e.args]
            return self.expand(subst(body, dict(zip(ps, args))), depth + 1)
        if k == 'name' and e.name in self.defines and not self.defines[e.name][0]:
            return self.expand(self.defines[e.name][1], depth + 1)
        if k in ('num', 'bool', 'name', 'strlit'): return e
        if k == 'field': return X('field', base=self.expand(e.base, depth), name=e.name)
        if k == 'index': return X('index', base=self.expand(e.base, depth), idx=self.expand(e.idx, depth))
        if k == 'un': return X('un', op=e.op, e=self.expand(e.e, depth))
        if k == 'bin': return X('bin', op=e.op, l=self.expand(e.l, depth), r=self.expand(e.r, depth))
        if k == 'cond': return X('cond', c=self.expand(e.c, depth), a=self.expand(e.a, depth), b=self.expand(e.b, depth))
        if k in ('forall', 'exists'):
            return X(k, var=e.var, lo=self.expand(e.lo, depth), hi=self.expand(e.hi, depth), body=self.expand(e.body, depth))
        if k in ('old', 'old_loop', 'len'): return X(k, e=self.expand(e.e, depth))
        if k == 'call': return X('call', name=e.name, args=[self.expand(a, depth) for a in e.args])
        raise SpecError('expand ' + k)

    def load(self, path):
        self.files.append(path)
        lines = open(path).read().split('\n')
        # join continuation lines (ending with backslash)
        joined = []; cur = ''; start = 0
        for ln, raw in enumerate(lines, 1):
            line = raw.split('#')[0].rstrip()
            if cur == '': start = ln
            if line.endswith('\\'):
                cur += line[:-1] + ' '
                continue
            cur += line
            if cur.strip(): joined.append((start, cur))
            cur = ''
        ctx = None; loop = None
        for ln, line in joined:
            w = line.split(None, 1)
            head = w[0]; rest = w[1].strip() if len(w) > 1 else ''
            try:
                engines = None
                if head in ('@E1', '@E2'):
                    engines = [head[1:]]
                    w = rest.split(None, 1); head = w[0]; rest = w[1].strip() if len(w) > 1 else ''
                label = None
                m = re.match(r'^\[([A-Za-z0-9_.-]+)\]\s*(.*)$', rest)
                if m and head in ('requires', 'ensures', 'invariant', 'exits_iff', 'on_exit', 'on_return'):
                    label = m.group(1); rest = m.group(2)
                if head == 'source':
                    self.cur_source = rest.strip()
                elif head == 'define':
                    m = re.match(r'^([A-Za-z_][A-Za-z_0-9]*)\s*(\(([^)]*)\))?\s*=\s*(.*)$', rest)
                    if not m: raise SpecError('bad define')
                    ps = [p.strip() for p in (m.group(3) or '').split(',') if p.strip()]
                    self.defines[m.group(1)] = (ps, parse_expr(m.group(4)))
                elif head == 'spec':
                    m = re.match(r'^([A-Za-z_][A-Za-z_0-9]*)\s*\(([^)]*)\)\s*:\s*(\w+)\s*(=\s*(.*))?$', rest)
                    if not m: raise SpecError('bad spec function')
                    ps = []
                    for p in m.group(2).split(','):
                        p = p.strip()
                        if not p: continue
                        t, n = p.split()
                        ps.append((t, n))
                    self.specfns[m.group(1)] = SpecFn(m.group(1), ps, m.group(3), self.expand(parse_expr(m.group(5))) if m.group(5) else None)
                elif head == 'function':
                    ctx = FuncSpec(rest.split()[0]); ctx.file = path; loop = None
                    ctx.source = getattr(self, 'cur_source', None)
                    self.funcs[ctx.key] = ctx
                elif head == 'relation':
                    a = rest.split()
                    if len(a) != 3 or a[1] != 'on': raise SpecError('relation NAME on KEY expected')
                    ctx = Relation(a[0], a[2]); ctx.file = path; loop = None
                    self.relations[a[0]] = ctx
                elif head == 'justified_by':
                    ctx.options['justified_by'] = rest.split()
                elif head in ('lemma', 'axiom'):
                    m = re.match(r'^([A-Za-z_][A-Za-z_0-9]*)\s*\(([^)]*)\)$', rest)
                    if not m: raise SpecError('bad lemma header')
                    ps = []
                    for p in m.group(2).split(','):
                        p = p.strip()
                        if not p: continue
                        t, n = p.split()
                        ps.append((t, n))
                    ctx = Lemma(m.group(1), ps); ctx.file = path; loop = None
                    ctx.is_axiom = (head == 'axiom')
                    self.lemmas[ctx.name] = ctx
                elif ctx is None:
                    raise SpecError('clause outside a block')
                elif head == 'engines':
                    ctx.engines = rest.split()
                elif head == 'inline':
                    if rest: ctx.inline_callees.update(rest.split())
                    else: ctx.inline = True
                elif head == 'option':
                    kv = rest.split(None, 1)
                    ctx.options[kv[0]] = kv[1] if len(kv) > 1 else True
                elif head == 'ghost':
                    t, n = rest.split()
                    ctx.ghosts.append((t, n))
                elif head == 'extern':
                    ctx.externs.update(rest.split())
                elif head == 'global':
                    t, n = rest.split()
                    ctx.globals.append((t, n))
                elif head == 'ghost_state':
                    t, n = rest.split()
                    ctx.ghost_state.append((t, n))
                elif head == 'share':
                    ctx.share += rest.replace(',', ' ').split()
                elif head == 'loop':
                    loop = LoopSpec(int(rest)); ctx.loops[loop.k] = loop
                elif head == 'endloop':
                    loop = None
                elif head == 'unroll':
                    a = rest.split(); ctx.unroll[int(a[0])] = int(a[1])
                elif head == 'invariant':
                    if loop is None: raise SpecError('invariant outside loop')
                    loop.invariants.append(Clause('invariant', self.expand(parse_expr(rest)), rest, engines, label, ln))
                elif head == 'call':
                    # call r = KEY(args) [with g1 = e1, g2 = e2 ; g1 = e3, g2 = e4 ...]  (ghost instances, separated by ';')
                    withx = None; alsox = []
                    # ... also VIEW with g = e, ... ; ...   (further views of the same function, same call)
                    while ' also ' in rest:
                        rest, _, atxt = rest.rpartition(' also ')
                        vname, _, awith = atxt.partition(' with ')
                        sets_ = []
                        for grp in (awith.split(';') if awith.strip() else []):
                            d_ = {}
                            for asg in grp.split(','):
                                gn_, _, gx_ = asg.partition('=')
                                d_[gn_.strip()] = self.expand(parse_expr(gx_.strip()))
                            sets_.append(d_)
                        alsox.insert(0, (vname.strip(), sets_))
                    if ' with ' in rest:
                        rest, _, wtxt = rest.partition(' with ')
                        withx = []
                        for grp in wtxt.split(';'):
                            d_ = {}
                            for asg in grp.split(','):
                                gn_, _, gx_ = asg.partition('=')
                                d_[gn_.strip()] = self.expand(parse_expr(gx_.strip()))
                            withx.append(d_)
                    m2 = re.match(r'^(\w+)\s*=\s*(\S+?)\((.*)\)\s*$', rest.strip())
                    if not m2 or not isinstance(ctx, Lemma): raise SpecError('call: expected `call r = KEY(args)` inside a lemma')
                    if not hasattr(ctx, 'calls'): ctx.calls = []
                    call_ex = self.expand(parse_expr('__args(' + m2.group(3) + ')'))
                    ctx.calls.append((m2.group(1), m2.group(2), list(call_ex.args), withx, alsox))
                elif head == 'capture':
                    # capture TYPE NAME : a variable captured by the lambda whose operator() this block describes
                    t, n = rest.split()
                    if not isinstance(ctx, FuncSpec): raise SpecError('capture outside a function block')
                    ctx.captures.append((t, n))
                elif head == 'static':
                    # static NAME invariant EXPR : representation invariant of a function-local static (established by its
                    # initialiser, assumed where the declaration is reached, re-established at every return)
                    m2 = re.match(r'^(\w+)\s+invariant\s+(.*)$', rest)
                    if not m2 or not isinstance(ctx, FuncSpec): raise SpecError('static: expected `static NAME invariant EXPR` inside a function block')
                    ctx.static_invs.setdefault(m2.group(1), []).append(Clause('static_invariant', self.expand(parse_expr(m2.group(2))), m2.group(2), engines, None, ln))
                elif head == 'summary':
                    # summary VAR = UF(arg, ...): at every exit of this (deterministic, closed) loop VAR is this function of the
                    # arguments' values at loop entry -- the engine checks that everything the loop reads is determined by them
                    if loop is None: raise SpecError('summary outside loop')
                    m2 = re.match(r'^(\w+)\s*=\s*(\w+)\((.*)\)\s*$', rest)
                    if not m2: raise SpecError('summary VAR = UF(args) expected')
                    ax = self.expand(parse_expr('__args(' + m2.group(3) + ')'))
                    if m2.group(2) in self.summary_ufs: raise SpecError('summary function %s is already defined by another loop' % m2.group(2))
                    self.summary_ufs[m2.group(2)] = (ctx.key, loop.k)
                    loop.summaries.append((m2.group(1), m2.group(2), list(ax.args)))
                elif head == 'on_exit':
                    if loop is None: raise SpecError('on_exit outside loop')
                    loop.on_exit.append(Clause('on_exit', self.expand(parse_expr(rest)), rest, engines, label, ln))
                elif head == 'on_return':
                    if loop is None: raise SpecError('on_return outside loop')
                    loop.on_return.append(Clause('on_return', self.expand(parse_expr(rest)), rest, engines, label, ln))
                elif head == 'decreases':
                    c = Clause('decreases', self.expand(parse_expr(rest)), rest, engines, label, ln)
                    if loop is not None: loop.decreases = c
                    else: ctx.decreases = c
                elif head == 'requires':
                    loop = None
                    ctx.requires.append(Clause('requires', self.expand(parse_expr(rest)), rest, engines, label, ln))
                elif head == 'ensures':
                    loop = None
                    ctx.ensures.append(Clause('ensures', self.expand(parse_expr(rest)), rest, engines, label, ln))
                elif head == 'valid_iff':
                    ctx.valid_iff = Clause('valid_iff', self.expand(parse_expr(rest)), rest, engines, label, ln)
                    ctx.exits_iff = Clause('exits_iff', X('un', op='!', e=ctx.valid_iff.expr), '!(' + rest + ')', engines, label, ln)
                elif head == 'exits_iff':
                    ctx.exits_iff = Clause('exits_iff', self.expand(parse_expr(rest)), rest, engines, label, ln)
                elif head == 'assigns':
                    tgt = [] if rest.strip() == 'nothing' else [self.expand(parse_expr(p)) for p in split_top(rest)]
                    if loop is not None: loop.assigns = tgt
                    else: ctx.assigns = tgt
                elif head == 'returns_ref':
                    ctx.returns_ref = self.expand(parse_expr(rest))
                elif head == 'callback':
                    # callback f(t) [uf F]: requires e ; ensures e
                    m = re.match(r'^([A-Za-z_$][A-Za-z_0-9$]*)\s*\(([^)]*)\)\s*(uf\s+(\w+))?\s*:?\s*(.*)$', rest)
                    if not m: raise SpecError('bad callback')
                    cb = {'args': [a.strip() for a in m.group(2).split(',') if a.strip()], 'requires': [], 'ensures': [], 'uf': m.group(4) or ('F_' + m.group(1))}
                    for part in m.group(5).split(';'):
                        part = part.strip()
                        if not part: continue
                        hw = part.split(None, 1)
                        if hw[0] == 'requires': cb['requires'].append(Clause('requires', self.expand(parse_expr(hw[1])), hw[1], None, None, ln))
                        elif hw[0] == 'ensures': cb['ensures'].append(Clause('ensures', self.expand(parse_expr(hw[1])), hw[1], None, None, ln))
                        else: raise SpecError('bad callback clause %r' % part)
                    ctx.callbacks[m.group(1)] = cb
                elif head == 'induction':
                    m = re.match(r'^(\w+)\s*>=\s*(.*)$', rest)
                    if not m: raise SpecError('induction VAR >= LOWER expected')
                    ctx.options['induction'] = (m.group(1), self.expand(parse_expr(m.group(2))))
                elif head == 'use_base_forall':
                    # lemma instances assumed right before the loop is entered (where its invariants are first checked)
                    if loop is None: raise SpecError('use_base_forall outside loop')
                    m = re.match(r'^(\w+)\s+in\s+(.*?)\s*\.\.\s*(.*?)\s*:\s*(.*)$', rest)
                    if not m: raise SpecError('use_base_forall VAR in LO .. HI : LEMMA(args) expected')
                    c = self.expand(parse_expr(m.group(4)))
                    if c.k != 'call': raise SpecError('use_base_forall ... : LEMMA(args) expected')
                    c.when = None
                    c.forall = (m.group(1), self.expand(parse_expr(m.group(2))), self.expand(parse_expr(m.group(3))))
                    loop.uses_base.append(c)
                elif head in ('use_forall', 'use_post_forall'):
                    # use_forall VAR LO HI : LEMMA(args)
                    m = re.match(r'^(\w+)\s+in\s+(.*?)\s*\.\.\s*(.*?)\s*:\s*(.*)$', rest)
                    if not m: raise SpecError('use_forall VAR in LO .. HI : LEMMA(args) expected')
                    c = self.expand(parse_expr(m.group(4)))
                    if c.k != 'call': raise SpecError('use_forall ... : LEMMA(args) expected')
                    c.when = None
                    c.forall = (m.group(1), self.expand(parse_expr(m.group(2))), self.expand(parse_expr(m.group(3))))
                    if head == 'use_post_forall': ctx.uses_post.append(c)
                    else: (loop.uses if loop is not None else ctx.uses).append(c)
                elif head == 'use_after':
                    # use_after LOCAL : LEMMA(args) [when cond]
                    vn, _, rest2 = rest.partition(':')
                    cond = None
                    if ' when ' in rest2:
                        rest2, _, ctext = rest2.partition(' when ')
                        cond = self.expand(parse_expr(ctext))
                    c = self.expand(parse_expr(rest2.strip()))
                    if c.k != 'call': raise SpecError('use_after LOCAL : LEMMA(args) expected')
                    c.when = cond
                    ctx.uses_after.setdefault(vn.strip(), []).append(c)
                elif head == 'use_end':
                    # use_end LEMMA(args) [when cond] : applied at the end of the loop body (before the step), where the body's locals are live
                    if loop is None: raise SpecError('use_end outside loop')
                    cond = None; r2 = rest
                    if ' when ' in r2:
                        r2, _, ctext = r2.partition(' when ')
                        cond = self.expand(parse_expr(ctext))
                    c = self.expand(parse_expr(r2.strip()))
                    if c.k != 'call': raise SpecError('use_end LEMMA(args) expected')
                    c.when = cond; c.forall = None
                    loop.uses_end.append(c)
                elif head in ('use', 'use_post'):
                    cond = None
                    if ' when ' in rest:
                        rest, _, ctext = rest.partition(' when ')
                        cond = self.expand(parse_expr(ctext))
                    c = self.expand(parse_expr(rest))
                    if c.k != 'call': raise SpecError('use LEMMA(args) expected')
                    c.when = cond
                    if head == 'use_post': ctx.uses_post.append(c)
                    else: (loop.uses if loop is not None else ctx.uses).append(c)
                elif head == 'note':
                    ctx.notes.append(rest)
                else:
                    raise SpecError('unknown clause head %r' % head)
            except SpecError as ex:
                raise SpecError('%s:%d: %s' % (path, ln, ex))
            except ValueError as ex:
                raise SpecError('%s:%d: %s' % (path, ln, ex))


def split_top(s):
    out = []; d = 0; cur = ''
    for ch in s:
        if ch in '([': d += 1
        if ch in ')]': d -= 1
        if ch == ',' and d == 0:
            out.append(cur.strip()); cur = ''
        else: cur += ch
    if cur.strip(): out.append(cur.strip())
    return out


def load_all(directory='/verif/contracts', files=None):
    db = SpecDB()
    names = files if files is not None else sorted(f for f in os.listdir(directory) if f.endswith('.spec'))
    # common definitions first
    for f in names:
        if os.path.basename(f).startswith('00'):
            db.load(os.path.join(directory, f))
    for f in names:
        if not os.path.basename(f).startswith('00'):
            db.load(os.path.join(directory, f))
    return db
