"""C20: the namespace-scope constants of Natural_Units.cpp as a straight-line initialisation program (rule R20).

A constant whose initialiser is built from literals and earlier-classified *static* constants by + - * / is static
(constant-folded by g++ and clang at every optimisation level: assumption A7, see DESIGN 4 C20); one whose initialiser
calls a function (pow, sqrt) is dynamic and is initialised in textual order at start-up.  A dynamic constant may read
only static constants or dynamic constants defined EARLIER in the text; otherwise it reads a zero.  Values are
computed in exact rational arithmetic (literals are decimal rationals: A1) and the derived-unit identities of the
property are checked as rational identities."""
import fractions, os
from . import cast

F = fractions.Fraction


class Dyn(Exception):
    pass


def load(unit):
    decls = []
    def walk(n, ns):
        k = n.get('kind')
        if k == 'NamespaceDecl':
            for c in n.get('inner', []): walk(c, ns + [n.get('name')])
        elif k == 'VarDecl' and ns[-1:] == ['natural_units'] and n.get('init') and n.get('inner'):
            decls.append(n)
    for o in unit.objs: walk(o, [])
    return decls


SRC = ''


def analyse(repo_src='Natural_Units.cpp'):
    global SRC
    SRC = open(os.path.join(cast.REPO, 'src', repo_src)).read()
    u = cast.Unit(repo_src)
    decls = load(u)
    order = []; info = {}
    seen = set()
    for d in decls:
        if d['name'] in seen: continue
        seen.add(d['name']); order.append(d['name'])
    by = {d['name']: d for d in decls}
    # pass 1: classify static / dynamic (a constant is static iff its initialiser uses only literals, arithmetic and static constants,
    # wherever those are defined in the text: static initialisation happens before any dynamic initialisation)
    def refs_and_calls(n, refs, calls):
        k = n.get('kind')
        if k == 'DeclRefExpr':
            rd = n['referencedDecl']
            if rd.get('kind') == 'VarDecl': refs.append(rd['name'])
            elif rd.get('kind') == 'FunctionDecl': calls.append(rd['name'])
        for c in n.get('inner', []): refs_and_calls(c, refs, calls)
    deps = {}
    for nm in order:
        refs = []; calls = []
        refs_and_calls(by[nm]['inner'][0], refs, calls)
        deps[nm] = (refs, calls)
    static = {}
    changed = True
    for nm in order: static[nm] = None
    def is_static(nm, stack=()):
        if static[nm] is not None: return static[nm]
        if nm in stack: static[nm] = False; return False
        refs, calls = deps[nm]
        r = (not calls) and all((x in static) and is_static(x, stack + (nm,)) for x in refs)
        static[nm] = r
        return r
    for nm in order: is_static(nm)
    # pass 2: values. statics first (any order), then dynamics in textual order; a dynamic read of a later dynamic yields 0
    val = {}
    problems = []
    def ev(n, cur, dyn_ok):
        k = n.get('kind')
        if k in ('ImplicitCastExpr', 'ParenExpr', 'ConstantExpr', 'ExprWithCleanups', 'MaterializeTemporaryExpr'): return ev(n['inner'][0], cur, dyn_ok)
        if k == 'FloatingLiteral':
            # the literal as written in the source (decimal rational, A1), not clang's 17-digit rendering of the double
            b = n.get('range', {}).get('begin', {})
            if 'offset' in b and 'tokLen' in b and 'spellingLoc' not in b and 'expansionLoc' not in b:
                txt = SRC[b['offset']: b['offset'] + b['tokLen']]
                try:
                    return F(txt.rstrip('fFlL'))
                except Exception:
                    pass
            return F(n['value'])
        if k == 'IntegerLiteral': return F(int(n['value']))
        if k == 'UnaryOperator' and n['opcode'] == '-': return -ev(n['inner'][0], cur, dyn_ok)
        if k == 'BinaryOperator':
            a = ev(n['inner'][0], cur, dyn_ok); b = ev(n['inner'][1], cur, dyn_ok)
            op = n['opcode']
            if op == '+': return a + b
            if op == '-': return a - b
            if op == '*': return a * b
            if op == '/': return a / b
            raise Dyn('operator ' + op)
        if k == 'DeclRefExpr':
            nm = n['referencedDecl']['name']
            if nm not in static: raise Dyn('reference to ' + nm)
            if static[nm]:
                if nm not in val: val[nm] = ev(by[nm]['inner'][0], nm, False)
                return val[nm]
            # dynamic constant
            if nm in val: return val[nm]
            problems.append('%s reads the dynamically initialised %s before its initialisation (reads 0)' % (cur, nm))
            return F(0)
        if k == 'CallExpr':
            callee = n['inner'][0]
            while callee.get('kind') in ('ImplicitCastExpr', 'ParenExpr'): callee = callee['inner'][0]
            fn = callee['referencedDecl']['name']
            args = [ev(a, cur, dyn_ok) for a in n['inner'][1:]]
            if fn == 'pow' and args[1].denominator == 1 and abs(args[1]) <= 8:
                return args[0] ** int(args[1])
            return ('opaque', fn, tuple(args))
        raise Dyn('node ' + k)
    for nm in order:
        if static[nm] and nm not in val:
            val[nm] = ev(by[nm]['inner'][0], nm, False)
    for nm in order:
        if not static[nm]:
            try:
                val[nm] = ev(by[nm]['inner'][0], nm, True)
            except TypeError:
                val[nm] = ('opaque', nm, ())
    return order, static, val, problems


# identities of the property statement (left name, expression over names as a Python lambda)
IDENTITIES = [
    ('Joule', lambda v: v['kg'] * v['meter'] ** 2 / v['sec'] ** 2, 'Joule = kg m^2/s^2'),
    ('erg', lambda v: v['gram'] * v['cm'] ** 2 / v['sec'] ** 2, 'erg = g cm^2/s^2'),
    ('Newton', lambda v: v['kg'] * v['meter'] / v['sec'] ** 2, 'Newton = kg m/s^2'),
    ('dyne', lambda v: v['gram'] * v['cm'] / v['sec'] ** 2, 'dyne = g cm/s^2'),
    ('Watt', lambda v: v['Joule'] / v['sec'], 'Watt = Joule/s'),
    ('Pa', lambda v: v['Newton'] / v['meter'] ** 2, 'Pascal = Newton/m^2'),
    ('barye', lambda v: v['dyne'] / v['cm'] ** 2, 'barye = dyne/cm^2'),
    ('hPa', lambda v: 100 * v['Pa'], 'hPa = 100 Pa'), ('kPa', lambda v: 1000 * v['Pa'], 'kPa = 1000 Pa'), ('bar', lambda v: 100000 * v['Pa'], 'bar = 1e5 Pa'),
    ('Joule', lambda v: v['Volt'] * v['Coulomb'], 'Volt*Coulomb = Joule'),
    ('Ohm', lambda v: v['Volt'] / v['Ampere'], 'Ohm = Volt/Ampere'),
    ('Siemens', lambda v: 1 / v['Ohm'], 'Siemens = 1/Ohm'),
    ('Ampere', lambda v: v['Coulomb'] / v['sec'], 'Ampere = Coulomb/s'),
    ('Farad', lambda v: v['Coulomb'] / v['Volt'], 'Farad = Coulomb/Volt'),
    ('Tesla', lambda v: v['Newton'] * v['sec'] / (v['Coulomb'] * v['meter']), 'Tesla = N s/(C m)'),
    ('Gauss', lambda v: v['Tesla'] / 10000, 'Gauss = 1e-4 Tesla'),
    ('Weber', lambda v: v['Tesla'] * v['meter'] ** 2, 'Weber = Tesla m^2'),
    ('Hz', lambda v: 1 / v['sec'], 'Hz = 1/s'),
    ('kg', lambda v: 1000 * v['gram'], 'kg = 1000 g'), ('tonne', lambda v: 1000 * v['kg'], 'tonne = 1000 kg'),
    ('meter', lambda v: 100 * v['cm'], 'm = 100 cm'), ('mm', lambda v: v['cm'] / 10, 'mm = cm/10'), ('km', lambda v: 1000 * v['meter'], 'km = 1000 m'),
    ('ms', lambda v: v['sec'] / 1000, 'ms = s/1000'), ('minute', lambda v: 60 * v['sec'], 'minute = 60 s'), ('hr', lambda v: 3600 * v['sec'], 'hr = 3600 s'),
    ('day', lambda v: 86400 * v['sec'], 'day = 86400 s'), ('week', lambda v: 7 * v['day'], 'week = 7 day'),
    ('eV', lambda v: v['GeV'] / 10 ** 9, 'eV = 1e-9 GeV'), ('keV', lambda v: 1000 * v['eV'], 'keV = 1000 eV'), ('MeV', lambda v: 1000 * v['keV'], 'MeV = 1000 keV'), ('TeV', lambda v: 1000 * v['GeV'], 'TeV = 1000 GeV'),
    ('cal', lambda v: F('4.184') * v['Joule'], 'cal = 4.184 J'),
    ('barn', lambda v: v['cm'] ** 2 / 10 ** 24, 'barn = 1e-24 cm^2'), ('hectare', lambda v: 10000 * v['meter'] ** 2, 'hectare = 1e4 m^2'),
]


def run_goal(goal):
    out = {'obligations': [], 'error': None, 'static_failures': [], 'bounded': [], 'vacuous': [], 'info': {'function': 'Natural_Units.cpp initialisation program', 'modes': None, 'rules': {'R20': 0}}}
    order, static, val, problems = analyse()
    out['info']['rules']['R20'] = len(order)
    def ob(oid, text, ok, model=None):
        out['obligations'].append({'id': 'units:' + oid, 'kind': 'units', 'text': text, 'verdict': 'proved' if ok else 'failed', 'backend': 'exact-rational-evaluation', 'seconds': 0.0, 'model': model, 'log': []})
    dyn = [n for n in order if not static[n]]
    ob('init_order', 'every dynamically initialised constant (%s) reads only constants that are initialised before it (statically, or dynamically earlier in the text)' % ', '.join(dyn), not problems, {'problems': problems} if problems else None)
    for nm, fn, text in IDENTITIES:
        try:
            lhs = val[nm]; rhs = fn(val)
            ok = (not isinstance(lhs, tuple)) and (not isinstance(rhs, tuple)) and lhs == rhs and lhs != 0
            model = None if ok else {'lhs': str(lhs)[:80], 'rhs': str(rhs)[:80]}
        except Exception as ex:
            ok = False; model = {'error': str(ex)}
        ob('identity:' + text.replace(' ', ''), 'derived unit: %s' % text, ok, model)
    return out


if __name__ == '__main__':
    r = run_goal({'key': 'units'})
    for o in r['obligations']: print(o['verdict'], o['text'][:100], o['model'] or '')


def validate_a7():
    """thorough tier: build Natural_Units.cpp with g++ and clang++ at -O0 and -O2, read the derived constants back at
    start-up (from a static constructor that runs before main) and compare with the exact values"""
    import subprocess, tempfile, shutil
    order, static, val, problems = analyse()
    names = ['Joule', 'erg', 'Newton', 'dyne', 'Watt', 'Pa', 'Volt', 'Ohm', 'Tesla', 'Hz', 'cal', 'Farad']
    wd = tempfile.mkdtemp(prefix='lpv_a7_', dir='/var/tmp')
    res = []
    try:
        drv = os.path.join(wd, 'drv.cpp')
        open(drv, 'w').write('#include <cstdio>\n#include "libphysica/Natural_Units.hpp"\nusing namespace libphysica::natural_units;\nint main(){' +
                             ''.join('printf("%s %%.17g\\n", %s);' % (n, n) for n in names) + 'return 0;}\n')
        for cxx in ('g++', 'clang++'):
            for opt in ('-O0', '-O2'):
                exe = os.path.join(wd, 'a_%s_%s' % (cxx.replace('+', 'p'), opt[1:]))
                r = subprocess.run([cxx, '-std=c++14', opt, '-I' + os.path.join(cast.REPO, 'include'), '-I' + os.path.join(cast.REPO, '_build', 'generated'), '-I/verif/build/generated',
                                    drv, os.path.join(cast.REPO, 'src', 'Natural_Units.cpp'), os.path.join(cast.REPO, 'src', 'Special_Functions.cpp'), os.path.join(cast.REPO, 'src', 'Linear_Algebra.cpp'),
                                    os.path.join(cast.REPO, 'src', 'Utilities.cpp'), os.path.join(cast.REPO, 'src', 'Numerics.cpp'), os.path.join(cast.REPO, 'src', 'Statistics.cpp'), os.path.join(cast.REPO, 'src', 'Integration.cpp'),
                                    '-lconfig++', '-o', exe], capture_output=True, text=True)
                if r.returncode != 0:
                    res.append({'compiler': cxx, 'opt': opt, 'ok': None, 'note': 'build failed: ' + r.stderr[-200:]}); continue
                o = subprocess.run([exe], capture_output=True, text=True, timeout=60).stdout
                worst = 0.0; bad = []
                for line in o.split('\n'):
                    if not line.strip(): continue
                    n, v = line.split()
                    exact = val[n]
                    rel = abs(float(v) - float(exact)) / abs(float(exact)) if float(exact) != 0 else abs(float(v))
                    worst = max(worst, rel)
                    if rel > 1e-12: bad.append(n)
                res.append({'compiler': cxx, 'opt': opt, 'ok': not bad, 'max_relative_deviation': worst, 'deviating': bad})
    finally:
        shutil.rmtree(wd, ignore_errors=True)
    return res
