"""Engine E1: CBMC code contracts on a C mirror emitted from the IR (DESIGN.md section 2.3).

Pipeline per function:  goto-cc --function h_f  ->  goto-instrument --dfcc h_f --enforce-contract f
[--replace-call-with-contract g]... --apply-loop-contracts  ->  cbmc --sat-solver cadical (bit-precise).
Double + - * / are rendered as uninterpreted functions unless the contract says `option fp ieee`.
Quantified requires (object-invariant schemas) are instantiated at the reads of the arrays they mention.
"""
import os, re, subprocess, json, tempfile, time, shutil
from . import cast, ir as IR, spec as SP

CT = {'int': 'int', 'uint': 'unsigned int', 'long': 'long', 'ulong': 'unsigned long', 'bool': '_Bool', 'double': 'double', 'char': 'char', 'void': 'void'}
SEQ_BOUND = 1048576


class E1Error(Exception):
    pass


def cname(m):
    return re.sub(r'[^A-Za-z0-9_]', '_', m)


class Emitter:
    def __init__(self, units, db, records):
        self.units = units; self.db = db; self.records = records
        self.funcs = {}
        self.used_records = []
        self.seqtypes = set()

    def func(self, mangled):
        if mangled in self.funcs: return self.funcs[mangled]
        for u in self.units:
            if mangled in u.funcs:
                f = IR.Translator(u).func(mangled); self.funcs[mangled] = f; return f
        raise E1Error('function %s not found' % mangled)

    # ---- types
    def ctype(self, t):
        if t in CT: return CT[t]
        if IR.is_seq(t):
            et = IR.elem(t)
            if et not in ('double', 'int', 'uint'): raise E1Error('E1 supports sequences of scalars only (%s)' % t)
            self.seqtypes.add(et)
            return 'seq_%s' % et
        if t.startswith('rec:'):
            r = t[4:]
            if r not in self.used_records: self.used_records.append(r)
            return 'struct %s' % r
        raise E1Error('type %s not supported by E1' % t)

    def struct_defs(self):
        out = []
        done = set()
        def emit(r):
            if r in done: return
            done.add(r)
            body = []
            for fn, ft in self.records.fields(r):
                if ft.startswith('rec:'): emit(ft[4:])
                try:
                    body.append('  %s %s;' % (self.ctype(ft), fn))
                except E1Error:
                    body.append('  /* field %s of type %s not mirrored */' % (fn, ft))
            out.append('struct %s {\n%s\n};' % (r, '\n'.join(body)))
        for r in list(self.used_records): emit(r)
        return out

    # ---- expressions
    def ex(self, e, fp, schemas, selfptr=True):
        k = e.k
        if k == 'lit':
            if e.t == 'bool': return '1' if e.v else '0'
            if e.t == 'double':
                t = getattr(e, 'text', None) or repr(e.v)
                if re.match(r'^-?\d+$', t): t += '.0'
                return '(%s)' % t
            if e.t in ('uint',): return '%du' % e.v
            if e.t in ('ulong',): return '%dul' % e.v
            if e.t == 'long': return '%dl' % e.v
            return '(%d)' % e.v
        if k == 'var':
            if e.name == 'self': return '(*self)'
            return cname(e.name)
        if k == 'field':
            if e.base.k == 'var' and e.base.name == 'self': return 'self->%s' % e.name
            return '%s.%s' % (self.ex(e.base, fp, schemas), e.name)
        if k == 'index':
            b = self.ex(e.base, fp, schemas); i = self.ex(e.idx, fp, schemas)
            pre = '__CPROVER_assert((%s) < %s.len, "index in bounds: %s")' % (i, b, IR.pp_expr(e).replace('"', "'"))
            inst = ''
            for sc in schemas:
                if sc['array'] == b:
                    for off in sc['offsets']:
                        inst += ', __CPROVER_assume(%s)' % sc['inst']('((long)(%s) - (%d))' % (i, off))
            return '(*(%s%s, &%s.data[%s]))' % (pre, inst, b, i)
        if k == 'len':
            return '%s.len' % self.ex(e.seq, fp, schemas)
        if k == 'un':
            return '(%s%s)' % (e.op, self.ex(e.e, fp, schemas))
        if k == 'cast':
            return '((%s)%s)' % (self.ctype(e.t), self.ex(e.e, fp, schemas))
        if k == 'cond':
            return '(%s ? %s : %s)' % (self.ex(e.c, fp, schemas), self.ex(e.a, fp, schemas), self.ex(e.b, fp, schemas))
        if k == 'bin':
            l = self.ex(e.l, fp, schemas); r = self.ex(e.r, fp, schemas)
            if e.t == 'double' and e.op in '+-*/' and fp != 'ieee':
                return '__CPROVER_uninterpreted_f%s(%s, %s)' % ({'+': 'add', '-': 'sub', '*': 'mul', '/': 'div'}[e.op], l, r)
            return '(%s %s %s)' % (l, e.op, r)
        if k == 'call':
            if e.kind == 'prim':
                if e.fn in ('fabs', 'sqrt', 'floor'): return '__CPROVER_%s(%s)' % (e.fn, self.ex(e.args[0], fp, schemas))
                if e.fn in ('isnan', 'isinf'): return '__CPROVER_%sd(%s)' % (e.fn, self.ex(e.args[0], fp, schemas))
                if e.fn in ('std::min', 'std::max') and len(e.args) == 2:
                    a = self.ex(e.args[0], fp, schemas); b = self.ex(e.args[1], fp, schemas)
                    return '((%s) < (%s) ? (%s) : (%s))' % ((b, a, b, a) if e.fn == 'std::min' else (a, b, b, a))
                if e.fn in IR.LIBM: return '__CPROVER_uninterpreted_%s(%s)' % (e.fn, ', '.join(self.ex(a, fp, schemas) for a in e.args))
                raise E1Error('primitive %s not supported by E1' % e.fn)
            if e.kind == 'user':
                f = self.func(e.fn)
                args = []
                al = list(e.args)
                if getattr(e, 'method', False):
                    o = al.pop(0)
                    args.append('self' if (o.k == 'var' and o.name == 'self') else '&' + self.ex(o, fp, schemas))
                args += [self.ex(a, fp, schemas) for a in al]
                self.callees.add(e.fn)
                return '%s(%s)' % (self.fname(f), ', '.join(args))
            raise E1Error('call kind %s not supported by E1' % e.kind)
        raise E1Error('expression kind %s not supported by E1' % k)

    def fname(self, f):
        return cname(f.qual.replace('::', '_')) + '_' + cname(f.mangled)[-8:]

    # ---- clause rendering
    def cl(self, x, env, ret=None):
        k = x.k
        if k == 'num':
            t = x.text
            if isinstance(x.v, float) and re.match(r'^\d+$', t): t += '.0'
            return '(%s)' % t
        if k == 'bool': return '1' if x.v else '0'
        if k == 'name':
            if x.name == 'result': return '__CPROVER_return_value'
            if x.name == 'self': return '(*self)'
            return cname(env.get(x.name, x.name))
        if k == 'field':
            if x.base.k == 'name' and x.base.name == 'self': return 'self->%s' % x.name
            return '%s.%s' % (self.cl(x.base, env), x.name)
        if k == 'index': return '%s.data[%s]' % (self.cl(x.base, env), self.cl(x.idx, env))
        if k == 'len': return '%s.len' % self.cl(x.e, env)
        if k == 'old': return '__CPROVER_old(%s)' % self.cl(x.e, env)
        if k == 'old_loop': return '__CPROVER_loop_entry(%s)' % self.cl(x.e, env)
        if k == 'un': return '(%s%s)' % (x.op, self.cl(x.e, env))
        if k == 'cond': return '(%s ? %s : %s)' % (self.cl(x.c, env), self.cl(x.a, env), self.cl(x.b, env))
        if k == 'bin':
            l = self.cl(x.l, env); r = self.cl(x.r, env)
            if x.op == '==>': return '(!(%s) || (%s))' % (l, r)
            if x.op == '<==>': return '((%s) == (%s))' % (l, r)
            if x.op in '+-*/' and len(x.op) == 1 and self.fp != 'ieee' and not (self._intlike(x.l) and self._intlike(x.r)) and (self._doublelike(x.l) or self._doublelike(x.r)):
                return '__CPROVER_uninterpreted_f%s(%s, %s)' % ({'+': 'add', '-': 'sub', '*': 'mul', '/': 'div'}[x.op], l, r)
            # comparisons between unsigned fields and signed locals are widened to long (P16)
            if x.op in ('<', '<=', '>', '>=', '==', '!=', '+', '-') and self.widen:
                return '((long)(%s) %s (long)(%s))' % (l, x.op, r) if self._intlike(x.l) and self._intlike(x.r) else '(%s %s %s)' % (l, x.op, r)
            return '(%s %s %s)' % (l, x.op, r)
        if k == 'call':
            if x.name == 'fabs': return '__CPROVER_fabs(%s)' % self.cl(x.args[0], env)
            if x.name in ('min', 'max') and len(x.args) == 2:
                a = self.cl(x.args[0], env); b = self.cl(x.args[1], env)
                return '((%s) < (%s) ? (%s) : (%s))' % ((b, a, b, a) if x.name == 'min' else (a, b, b, a))
            raise E1Error('clause function %s not supported by E1' % x.name)
        raise E1Error('clause kind %s not supported by E1' % k)

    def _intlike(self, x):
        """heuristic: a clause term that is integer valued (names of int locals/params, fields N, jLast, len, literals)"""
        if x.k == 'num': return isinstance(x.v, int)
        if x.k == 'len': return True
        if x.k == 'name': return self.inttypes.get(x.name, False)
        if x.k == 'field': return x.name in self.intfields
        if x.k == 'bin' and x.op in ('+', '-', '*'): return self._intlike(x.l) and self._intlike(x.r)
        if x.k in ('old', 'old_loop'): return self._intlike(x.e)
        if x.k == 'cond': return self._intlike(x.a) and self._intlike(x.b)
        return False

    def _doublelike(self, x):
        if x.k == 'num': return isinstance(x.v, float)
        if x.k == 'name': return self.dbltypes.get(x.name, False)
        if x.k == 'index': return True      # every indexed sequence in the E1 functions holds doubles or is compared as such
        if x.k == 'field': return x.name in self.dblfields
        if x.k == 'bin' and x.op in ('+', '-', '*', '/'): return self._doublelike(x.l) or self._doublelike(x.r)
        if x.k == 'call' and x.name in ('fabs', 'sqrt', 'min', 'max'): return True
        if x.k in ('old', 'old_loop'): return self._doublelike(x.e)
        return False

    def conjuncts(self, x):
        if x.k == 'bin' and x.op == '&&': return self.conjuncts(x.l) + self.conjuncts(x.r)
        return [x]

    # ---- statements
    def stmts(self, ss, ind, ctx):
        out = []
        p = '  ' * ind
        for s in ss:
            k = s.k
            if k == 'decl':
                t = self.ctype(s.t)
                if s.init is None: out.append('%s%s %s;' % (p, t, cname(s.name)))
                else: out.append('%s%s %s = %s;' % (p, t, cname(s.name), self.ex(s.init, ctx['fp'], ctx['schemas'])))
            elif k == 'assign':
                out.append('%s%s = %s;' % (p, self.ex(s.lhs, ctx['fp'], ctx['schemas']), self.ex(s.rhs, ctx['fp'], ctx['schemas'])))
            elif k == 'if':
                out.append('%sif (%s) {' % (p, self.ex(s.cond, ctx['fp'], ctx['schemas'])))
                out += self.stmts(s.then, ind + 1, ctx)
                if s.els:
                    out.append(p + '} else {'); out += self.stmts(s.els, ind + 1, ctx)
                out.append(p + '}')
            elif k == 'block':
                out.append(p + '{'); out += self.stmts(s.body, ind + 1, ctx); out.append(p + '}')
            elif k == 'loop':
                ls = ctx['spec'].loops.get(s.ordinal)
                if ls is None: raise E1Error('loop %d has no invariant' % s.ordinal)
                out.append('%swhile (%s)' % (p, self.ex(s.cond, ctx['fp'], ctx['schemas'])))
                env = s.scope or {}
                for inv in ls.invariants:
                    if inv.engines and 'E1' not in inv.engines: continue
                    for c in self.conjuncts(inv.expr):
                        if c.k in ('forall', 'exists'): continue
                        out.append('%s  __CPROVER_loop_invariant(%s)' % (p, self.cl(c, env)))
                if ls.decreases is not None:
                    out.append('%s  __CPROVER_decreases(%s)' % (p, self.cl(ls.decreases.expr, env)))
                out.append(p + '{')
                body = self.stmts(s.body, ind + 1, ctx)
                # `continue` would skip the step: not used in the E1 functions (checked)
                out += body + self.stmts(s.step, ind + 1, ctx)
                out.append(p + '}')
            elif k == 'return':
                out.append('%sreturn%s;' % (p, '' if s.e is None else ' ' + self.ex(s.e, ctx['fp'], ctx['schemas'])))
            elif k == 'break': out.append(p + 'break;')
            elif k == 'continue': raise E1Error('continue not supported by E1')
            elif k == 'exit':
                if ctx['mode'] == 'accept':
                    out.append('%s__CPROVER_assert(0, "exit reached on a meaningful request");' % p)
                out.append('%s__CPROVER_assume(0);' % p)
            elif k == 'output':
                out.append('%s/* diagnostic output (dropped, R5) */' % p)
            elif k == 'callstmt':
                out.append('%s%s;' % (p, self.ex(s.call, ctx['fp'], ctx['schemas'])))
            else:
                raise E1Error('statement kind %s not supported by E1' % k)
        return out

    # ---- one function with its contract
    def signature(self, f):
        ps = []
        if f.self_rec: ps.append('struct %s *self' % f.self_rec); self.ctype('rec:' + f.self_rec)
        for pn, pt, br in f.params:
            if br: raise E1Error('reference parameter %s not supported by E1' % pn)
            ps.append('%s %s' % (self.ctype(pt), cname(pn)))
        return '%s %s(%s)' % (self.ctype(f.ret), self.fname(f), ', '.join(ps) or 'void')

    def contract_text(self, f, fs, mode, body_fields):
        """requires/ensures/assigns lines and the schema list"""
        lines = []; schemas = []
        self.inttypes = {pn: (pt in IR.INT_TYPES) for pn, pt, br in f.params}
        self.dbltypes = {pn: (pt == 'double') for pn, pt, br in f.params}
        self.dblfields = set()
        if f.self_rec:
            for fn, ft in self.records.fields(f.self_rec):
                if ft == 'double': self.dblfields.add(fn)
        self.fp = fs.options.get('fp', 'uf')
        from .e2 import walk_stmts
        for s_ in walk_stmts(f.body):
            if s_.k == 'decl':
                self.inttypes[s_.name.split('__')[0]] = (s_.t in IR.INT_TYPES)
                self.dbltypes[s_.name.split('__')[0]] = (s_.t == 'double')
        self.intfields = set()
        if f.self_rec:
            for fn, ft in self.records.fields(f.self_rec):
                if ft in IR.INT_TYPES: self.intfields.add(fn)
        self.widen = True
        env = {}
        if f.self_rec:
            lines.append('__CPROVER_requires(__CPROVER_is_fresh(self, sizeof(*self)))')
            for fn, ft in self.records.fields(f.self_rec):
                if IR.is_seq(ft) and fn in body_fields:
                    lines.append('__CPROVER_requires(self->%s.len <= %d && __CPROVER_is_fresh(self->%s.data, self->%s.len * sizeof(%s)))' % (fn, SEQ_BOUND, fn, fn, CT[IR.elem(ft)]))
        for pn, pt, br in f.params:
            if IR.is_seq(pt):
                lines.append('__CPROVER_requires(%s.len <= %d && __CPROVER_is_fresh(%s.data, %s.len * sizeof(%s)))' % (cname(pn), SEQ_BOUND, cname(pn), cname(pn), CT[IR.elem(pt)]))
        for cl in fs.requires:
            if cl.engines and 'E1' not in cl.engines: continue
            for c in self.conjuncts(cl.expr):
                if c.k == 'forall':
                    schemas.append(self.schema(c, env)); continue
                lines.append('__CPROVER_requires(%s)' % self.cl(c, env))
        V = fs.exits_iff
        if V is not None:
            v = self.cl(V.expr, env)
            lines.append('__CPROVER_requires(%s)' % ('!(%s)' % v if mode == 'accept' else v))
            if mode == 'reject': lines.append('__CPROVER_ensures(0)   /* a meaningless request never returns normally */')
        if mode == 'accept':
            for cl in fs.ensures:
                if cl.engines and 'E1' not in cl.engines: continue
                for c in self.conjuncts(cl.expr):
                    if c.k in ('forall', 'exists') or self.has_quant(c): continue
                    lines.append('__CPROVER_ensures(%s)' % self.cl(c, env))
        assigns = fs.assigns
        if assigns is None and f.is_const: assigns = []
        if assigns is not None:
            lines.append('__CPROVER_assigns(%s)' % ', '.join(self.cl(t, env) for t in assigns))
        return lines, schemas

    def has_quant(self, x):
        if x.k in ('forall', 'exists'): return True
        for v in x.__dict__.values():
            if isinstance(v, SP.X) and self.has_quant(v): return True
            if isinstance(v, list) and any(isinstance(a, SP.X) and self.has_quant(a) for a in v): return True
        return False

    def schema(self, c, env):
        """forall(k, lo, hi, body) in a requires: instantiated at the reads of the array it mentions"""
        arrays = set(); offs = set()
        def walk(x):
            if x.k == 'index':
                arrays.add(self.cl(x.base, env))
                i = x.idx
                if i.k == 'name' and i.name == c.var: offs.add(0)
                elif i.k == 'bin' and i.op in ('+', '-') and i.l.k == 'name' and i.l.name == c.var and i.r.k == 'num':
                    offs.add(i.r.v if i.op == '+' else -i.r.v)
            for v in x.__dict__.values():
                if isinstance(v, SP.X): walk(v)
                elif isinstance(v, list):
                    for a in v:
                        if isinstance(a, SP.X): walk(a)
        walk(c.body)
        if len(arrays) != 1: raise E1Error('schema over %d arrays' % len(arrays))
        arr = list(arrays)[0]
        def inst(kexpr, c=c, env=env):
            e2 = dict(env); e2[c.var] = '@K'
            lo = self.cl(c.lo, env); hi = self.cl(c.hi, env)
            body = self.cl(c.body, e2).replace(cname('@K'), '(%s)' % kexpr)
            return '(!((long)(%s) <= (%s) && (%s) < (long)(%s)) || (%s))' % (lo, kexpr, kexpr, hi, body)
        return {'array': arr, 'offsets': sorted(offs) or [0], 'inst': inst, 'text': SP.show(c)}

    def fields_used(self, f, fs):
        used = set()
        def we(e):
            if isinstance(e, IR.E):
                if e.k == 'field' and e.base.k == 'var' and e.base.name == 'self': used.add(e.name)
                for v in e.__dict__.values():
                    if isinstance(v, IR.E): we(v)
                    elif isinstance(v, list):
                        for a in v: we(a)
        for s in f.body: we(s)
        def wx(x):
            if x.k == 'field' and x.base.k == 'name' and x.base.name == 'self': used.add(x.name)
            for v in x.__dict__.values():
                if isinstance(v, SP.X): wx(v)
                elif isinstance(v, list):
                    for a in v:
                        if isinstance(a, SP.X): wx(a)
        for cl in fs.requires + fs.ensures + ([fs.exits_iff] if fs.exits_iff else []):
            wx(cl.expr)
        return used

    def emit(self, key, mode):
        fs = self.db.funcs[key]
        f = self.func(key.split('~')[0])
        fp = fs.options.get('fp', 'uf')
        self.callees = set()
        used = self.fields_used(f, fs)
        # callees' fields too (their contracts are checked at the call site)
        lines, schemas = self.contract_text(f, fs, mode, used)
        ctx = {'fp': fp, 'schemas': schemas, 'mode': mode, 'spec': fs}
        body = self.stmts(f.body, 1, ctx)
        protos = []
        replaced = []
        for cm in sorted(self.callees):
            view = key.split('~')[1] if '~' in key else None
            cf = self.func(cm); cs = (self.db.funcs.get(cm + '~' + view) if view else None) or self.db.funcs.get(cm)
            if cs is None or (cs.inline and not cs.ensures): raise E1Error('callee %s has no contract' % cf.qual)
            cused = self.fields_used(cf, cs) | used
            # a callee is used through its contract (accept form); its exits-iff becomes a precondition
            cl_, _ = self.contract_text(cf, cs, 'accept', set())
            cl_ = [l for l in cl_ if 'is_fresh' not in l]
            protos.append(self.signature(cf) + '\n' + '\n'.join(cl_) + ';')
            replaced.append(self.fname(cf))
        # recompute the main contract after callee processing (contract_text mutates helper state)
        lines, schemas2 = self.contract_text(f, fs, mode, used | set().union(*[self.fields_used(self.func(c), self.db.funcs.get(c + '~' + view if view else c) or self.db.funcs[c]) for c in self.callees]) if self.callees else used)
        sig = self.signature(f)
        src = []
        src.append('/* generated by lpv.e1 from %s (%s), mode %s -- do not edit */' % (f.qual, f.src, mode))
        src.append('#include <math.h>\n#include <stddef.h>')
        for et in sorted(self.seqtypes | {'double'}):
            src.append('typedef struct { %s *data; unsigned long len; } seq_%s;' % (CT[et], et))
        src += self.struct_defs()
        for op in ('add', 'sub', 'mul', 'div'):
            src.append('double __CPROVER_uninterpreted_f%s(double, double);' % op)
        for lm in sorted(IR.LIBM):
            if lm not in ('fabs', 'sqrt', 'floor', 'isnan', 'isinf', 'abs', 'pow', 'atan2', 'fmod'): src.append('double __CPROVER_uninterpreted_%s(double);' % lm)
        src.append('double __CPROVER_uninterpreted_pow(double, double);')
        src += protos
        src.append(sig)
        src += lines
        src.append('{')
        src += body
        src.append('}')
        # harness
        h = ['void h_main(void) {']
        args = []
        if f.self_rec:
            h.append('  struct %s *self;' % f.self_rec); args.append('self')
        for pn, pt, br in f.params:
            h.append('  %s %s;' % (self.ctype(pt), cname(pn))); args.append(cname(pn))
        h.append('  %s(%s);' % (self.fname(f), ', '.join(args)))
        h.append('}')
        src += h
        return '\n'.join(src) + '\n', self.fname(f), replaced, schemas


def run_cbmc(csrc, fname, replaced, workdir, tag, timeout=300):
    cfile = os.path.join(workdir, tag + '.c')
    open(cfile, 'w').write(csrc)
    gb1 = os.path.join(workdir, tag + '.1.gb'); gb2 = os.path.join(workdir, tag + '.2.gb')
    r = subprocess.run(['goto-cc', '--function', 'h_main', cfile, '-o', gb1], capture_output=True, text=True)
    if r.returncode != 0: raise E1Error('goto-cc failed: %s' % (r.stderr + r.stdout)[-1500:])
    cmd = ['goto-instrument', '--dfcc', 'h_main', '--enforce-contract', fname]
    for g in replaced: cmd += ['--replace-call-with-contract', g]
    cmd += ['--apply-loop-contracts', gb1, gb2]
    r = subprocess.run(cmd, capture_output=True, text=True)
    if r.returncode != 0: raise E1Error('goto-instrument failed: %s' % (r.stderr + r.stdout)[-2500:])
    t0 = time.time()
    cmd = ['cbmc', gb2, '--sat-solver', 'cadical', '--bounds-check', '--pointer-check', '--div-by-zero-check', '--signed-overflow-check',
           '--conversion-check', '--json-ui']
    try:
        r = subprocess.run('ulimit -v 12000000; exec ' + ' '.join(cmd), shell=True, capture_output=True, text=True, timeout=timeout)
    except subprocess.TimeoutExpired:
        return None, 'timeout after %ds' % timeout, time.time() - t0
    try:
        js = json.loads(r.stdout)
    except Exception:
        raise E1Error('cbmc output not JSON: %s' % r.stdout[-800:])
    res = None
    for item in js:
        if isinstance(item, dict) and 'result' in item: res = item['result']
    if res is None:
        msgs = [i.get('messageText') for i in js if isinstance(i, dict) and i.get('messageType') == 'ERROR']
        raise E1Error('cbmc gave no result: %s' % msgs[-3:])
    return res, None, time.time() - t0


def run_goal(goal, budget):
    """goal key: mangled function name (contract must list engines E1)"""
    from . import e2
    units = cast.all_units()
    db = SP.load_all()
    records = e2.Records(units)
    key = goal['key']
    fs = db.funcs.get(key)
    if fs is None: raise E1Error('no contract for %s' % key)
    out = {'obligations': [], 'static_failures': [], 'bounded': [], 'vacuous': [], 'info': None}
    modes = ['accept', 'reject'] if fs.exits_iff is not None else ['accept']
    wd = tempfile.mkdtemp(prefix='lpv_e1_', dir='/var/tmp')
    try:
        em = Emitter(units, db, records)
        f = em.func(key.split('~')[0])
        out['info'] = {'function': f.qual, 'modes': {}, 'rules': f.rules}
        for mode in modes:
            csrc, fname, replaced, schemas = em.emit(key, mode)
            res, err, secs = run_cbmc(csrc, fname, replaced, wd, cname(key)[-40:] + '_' + mode, timeout=int(max(60, budget * 15)))
            if res is None:
                out['obligations'].append({'id': 'E1:%s:%s:cbmc' % (f.qual, mode), 'kind': 'cbmc', 'text': err, 'verdict': 'undecided', 'backend': 'cbmc-cadical', 'seconds': round(secs, 2), 'model': None, 'log': []})
                continue
            n = 0; loops_seen = set()
            for p in res:
                st = p.get('status'); desc = p.get('description', ''); prop = p.get('property', '')
                if 'loop_invariant' in prop or 'loop invariant' in desc: loops_seen.add(prop)
                verdict = 'proved' if st == 'SUCCESS' else ('failed' if st == 'FAILURE' else 'undecided')
                model = None
                if st == 'FAILURE' and p.get('trace'):
                    model = {}
                    for step in p['trace']:
                        if step.get('stepType') == 'assignment' and step.get('lhs') and not str(step.get('lhs')).startswith('__') and step.get('value', {}).get('data') is not None:
                            model[str(step['lhs'])] = str(step['value'].get('data'))
                    model = dict(list(model.items())[-40:])
                out['obligations'].append({'id': 'E1:%s:%s:%s' % (f.qual, mode, prop), 'kind': 'cbmc', 'text': desc, 'verdict': verdict, 'backend': 'cbmc-cadical', 'seconds': round(secs / max(1, len(res)), 4), 'model': model, 'log': []})
                n += 1
            out['info']['modes'][mode] = {'obligations': n, 'cbmc_seconds': round(secs, 2), 'schema_instances': [s['text'] for s in schemas]}
            if fs.loops and not loops_seen:
                raise E1Error('loop contracts of %s were not applied (no loop_invariant obligations)' % f.qual)
    finally:
        if not os.environ.get('LPV_KEEP'): shutil.rmtree(wd, ignore_errors=True)
    return out
