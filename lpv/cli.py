"""command line front end:  bin/lpv replay <replay file>

A replay file (replays/<property>/<obligation>.json) names one failed obligation.  `replay` re-decides that
obligation against the current working tree (the function or lemma it belongs to is re-extracted and
re-verified; only the named obligation is reported) and, where the file carries a scenario, re-runs the
C++ driver of that scenario against the real code.  Exit 1 if the obligation still fails (or the driver
still reproduces), exit 0 if it is discharged now, exit 2 if it cannot be re-decided."""
import sys, json, os


def _redecide(rec):
    """re-run the goal of properties/<pid>.goals the obligation belongs to and look the obligation up again"""
    from . import check
    goals, _meta = check.parse_goals(rec['property'])
    key = rec.get('function') or ''
    cands = [g for g in goals if g['key'] == key and g['engine'] == rec.get('engine')] or [g for g in goals if g['key'] == key]
    if rec.get('engine') == 'static':
        cands = [g for g in goals if g['engine'] == 'static']
    if not cands: return None, 'goal %r is no longer listed for %s' % (key, rec['property'])
    obs = []; statics = []; errs = []
    for g in cands:
        out = check.run_goal((g, 20.0))
        if out.get('error'): errs.append(out['error'])
        obs += out['obligations']; statics += out.get('static_failures', [])
    if rec.get('engine') == 'static':
        if errs: return None, '; '.join(errs)
        hit = [s_ for s_ in statics if s_ == rec.get('clause')]
        return (len(hit) > 0 or len(statics) > 0), ('static facts failing now: %s' % statics) if statics else 'static facts hold now'
    if errs and not obs: return None, '; '.join(errs)
    same = [o for o in obs if o['id'] == rec['obligation']]
    if not same:   # obligation numbering moves with edits: fall back to the clause text
        same = [o for o in obs if o['text'] == rec.get('clause') and o['verdict'] != 'proved']
    if not same:
        bad = [o for o in obs if o['verdict'] == 'failed']
        return (len(bad) > 0), 'named obligation is not generated (or is discharged) now; %d failed obligations of %s: %s' % (len(bad), key, [o['id'] for o in bad][:5])
    o = same[0]
    if o['verdict'] == 'undecided': return None, 'undecided now (%s)' % o['id']
    return o['verdict'] == 'failed', '%s: %s by %s in %.2fs; model %s' % (o['id'], o['verdict'], o['backend'], o['seconds'], json.dumps(o.get('model'), default=str)[:600])


def replay(path):
    rec = json.load(open(path))
    print('property   :', rec.get('property'))
    print('obligation :', rec.get('obligation'))
    print('clause     :', rec.get('clause'))
    solver = rec.get('solver') or {}
    print('recorded   : %s by %s' % (solver.get('verdict'), solver.get('name')))
    if solver.get('model'): print('model      :', json.dumps(solver['model'], default=str)[:800])
    status = 2
    ob_ = str(rec.get('obligation') or '')
    if ob_.startswith('witness:') or ob_.endswith(':goal-error'):
        still, info = None, 'there is no obligation to re-decide: the failing input of this record comes from the witness driver'
    else:
        try:
            still, info = _redecide(rec)
        except SystemExit:
            raise
        except Exception as ex:
            still, info = None, 'could not re-decide: %r' % ex
    print('re-decided :', info)
    if still is True: status = 1
    elif still is False: status = 0
    sc = rec.get('scenario')
    if sc and sc.get('driver'):
        from . import replay as RP
        name = os.path.basename(sc['driver'])[:-4]
        try:
            ok, text = RP.run_driver(name, sc.get('args', []))
        except Exception as ex:
            ok, text = None, str(ex)
        print('driver     : %s -> %s' % (sc['driver'], {True: 'REPRODUCED on the real code', False: 'not reproduced', None: 'not run'}[ok]))
        print(text[-3000:])
        if ok is True: status = 1
    else:
        print('driver     : none (no-failing-input-found); the verifier output above is the evidence')
    return status


def main(argv):
    if len(argv) >= 2 and argv[0] == 'replay':
        sys.exit(replay(argv[1]))
    if len(argv) >= 2 and argv[0] == 'witness':
        from . import replay as RP
        ok, text = RP.run_driver(argv[1], argv[2:])
        print(text); sys.exit(1 if ok else 0)
    print(__doc__); sys.exit(2)


if __name__ == '__main__':
    main(sys.argv[1:])
