"""verdict aggregation, evidence file, replay files, KNOWN-FINDING / VIOLATION lines."""
import os, json, time, re

ROOT = '/verif'
OUT = os.environ.get('LPV_OUT', ROOT)      # evidence/ and replays/ go here (redirected when checking a scratch copy)

GLOBAL_ASSUMPTIONS = {
    'A1': 'A1: machine double arithmetic is treated as arithmetic in the reals by engine E2 (inputs finite, no NaN); rounding-level behaviour is not decided',
    'A2': 'A2: the E2 VC generator (lpv/e2.py, lpv/solve.py) and the AST->IR translator (lpv/ir.py) are trusted; mitigated by must-fail canaries each run and seeded mutants',
    'A3': 'A3: models of std:: primitives (vector operations, min/max/swap, min_element/max_element, sort/unique/upper_bound) and the libm axioms (sqrt, exp, sin/cos, floor, acos) are trusted',
    'A4': 'A4: clang\'s typed AST is the program g++ compiles (same C++14 source, no compiler-specific #ifdef in the functions under contract)',
    'A5': 'A5: termination is proved only where a decreases clause is listed; elsewhere partial correctness',
    'A6': 'A6: third-party code (boost, libconfig) is outside every contract',
    'A8': 'A8: signed int arithmetic is treated as mathematical integers in E2 (overflow of int is checked bit-precisely only in E1 goals)',
}


def safe(s):
    return re.sub(r'[^A-Za-z0-9_.-]+', '_', s)[:120]


def load_known():
    p = os.path.join(ROOT, 'known_findings.json')
    try:
        return json.load(open(p))
    except Exception:
        return []


def finish(pid, tier, seed, goals, meta, results, ok_canary, canary_info, t0):
    from . import replay
    obligations = []; errors = []; undecided = []; failed = []; vac = []; statics = []; bounded = []
    functions = []; backends = {}; solver_s = 0.0; axioms = 0
    for r in results:
        g = r['goal']
        if r.get('error'):
            errors.append('%s %s: %s' % (g['engine'], g['key'], r['error']))
        info = r.get('info') or {}
        functions.append({'engine': g['engine'], 'key': g['key'], 'name': info.get('function') or info.get('lemma') or g['key'],
                          'sentence': g['sentence'], 'obligations': len(r['obligations']), 'wall_s': r.get('wall_s'),
                          'modes': info.get('modes'), 'extraction_rule_firings': info.get('rules'), 'error': r.get('error')})
        if not r['obligations'] and not r.get('error'):
            errors.append('%s %s: generated zero obligations (vacuous goal)' % (g['engine'], g['key']))
        for v in r.get('vacuous', []): vac.append(v)
        for s in r.get('static_failures', []): statics.append(s)
        for b in r.get('bounded', []): bounded.append(b)
        axioms += r.get('axiom_instances', 0)
        for ob in r['obligations']:
            ob = dict(ob); ob['goal'] = g['key']; ob['engine'] = g['engine']
            obligations.append(ob)
            backends[ob['backend']] = backends.get(ob['backend'], 0) + 1
            solver_s += ob.get('seconds') or 0.0
            if ob['verdict'] == 'failed': failed.append(ob)
            elif ob['verdict'] != 'proved': undecided.append(ob)
    lines = []
    # known findings: replay the witness of every entry of this property
    known = [k for k in load_known() if k.get('property') == pid]
    for k in known:
        if k.get('status') == 'known':
            ok, detail = replay.run_witness(k)
            if ok is True:
                lines.append('KNOWN-FINDING: property=%s %s' % (pid, k.get('what')))
            elif ok is False:
                lines.append('NOTE: known finding %s no longer reproduces (stale entry): %s' % (k.get('finding_id'), detail))
            else:
                lines.append('KNOWN-FINDING: property=%s %s (witness not replayed: %s)' % (pid, k.get('what'), detail))
    violations = 0
    rdir = os.path.join(OUT, 'replays', pid)
    for s in statics:
        failed.append({'id': 'static:' + safe(s), 'kind': 'static-fact', 'text': s, 'verdict': 'failed', 'backend': 'ast-scan', 'seconds': 0, 'model': None, 'engine': 'static', 'goal': ''})
    for ob in failed:
        os.makedirs(rdir, exist_ok=True)
        path = os.path.join(rdir, safe(ob['id']) + '.json')
        rec = {'property': pid, 'obligation': ob['id'], 'engine': ob['engine'], 'function': ob.get('goal'), 'clause': ob['text'],
               'solver': {'name': ob['backend'], 'verdict': ob['verdict'], 'seconds': ob['seconds'], 'model': ob.get('model'), 'log': ob.get('log')},
               'scenario': None, 'reproduced': None, 'observed': None}
        try:
            rep = replay.attempt(pid, ob)
        except Exception as ex:
            rep = {'reproduced': None, 'scenario': None, 'observed': 'replay driver error: %s' % ex}
        rec.update(rep)
        json.dump(rec, open(path, 'w'), indent=1, default=str)
        violations += 1
        if rec.get('reproduced') is True:
            lines.append('VIOLATION property=%s replay=%s' % (pid, path))
        else:
            lines.append('VIOLATION property=%s replay=%s no-failing-input-found' % (pid, path))
    # an obligation the solvers could not decide is not a violation -- unless a witness driver written for that clause observes the
    # real code violating the property statement: then there is a failing input, and it is reported
    still_undecided = []
    for ob in undecided:
        try:
            rep = replay.attempt(pid, ob)
        except Exception as ex:
            rep = {'reproduced': None, 'scenario': None, 'observed': 'replay driver error: %s' % ex}
        if rep.get('reproduced') is True:
            os.makedirs(rdir, exist_ok=True)
            path = os.path.join(rdir, safe(ob['id']) + '.json')
            rec = {'property': pid, 'obligation': ob['id'], 'engine': ob['engine'], 'function': ob.get('goal'), 'clause': ob['text'],
                   'solver': {'name': ob['backend'], 'verdict': ob['verdict'] + ' (no solver answer; the failing input comes from the witness driver of this clause)', 'seconds': ob['seconds'], 'model': None, 'log': ob.get('log')}}
            rec.update(rep)
            json.dump(rec, open(path, 'w'), indent=1, default=str)
            violations += 1
            lines.append('VIOLATION property=%s replay=%s' % (pid, path))
        else:
            still_undecided.append(ob)
    undecided = still_undecided
    # the same for a goal that could not be generated at all (the code no longer fits the shape its contract speaks about)
    for r in results:
        if not r.get('error'): continue
        g = r['goal']
        ob = {'id': '%s:%s:goal-error' % (g['engine'].upper(), g['key']), 'text': str(r['error'])[:300], 'engine': g['engine'], 'goal': g['key']}
        try:
            rep = replay.attempt(pid, ob)
        except Exception as ex:
            rep = {'reproduced': None}
        if rep.get('reproduced') is True:
            os.makedirs(rdir, exist_ok=True)
            path = os.path.join(rdir, safe(ob['id'])[:120] + '.json')
            rec = {'property': pid, 'obligation': ob['id'], 'engine': ob['engine'], 'function': g['key'], 'clause': 'no obligation could be generated: ' + ob['text'],
                   'solver': {'name': None, 'verdict': 'none (the failing input comes from the witness driver of this function)'}}
            rec.update(rep)
            json.dump(rec, open(path, 'w'), indent=1, default=str)
            violations += 1
            lines.append('VIOLATION property=%s replay=%s' % (pid, path))
    # thorough tier: witness drivers run on the real code; one that observes a violation of the property statement is a failing input
    witness_errors = []
    for w in meta.get('witness_replays') or []:
        if w['reproduced'] is True:
            os.makedirs(rdir, exist_ok=True)
            path = os.path.join(rdir, 'witness_' + safe(os.path.basename(w['driver'])[:-4]) + '.json')
            json.dump({'property': pid, 'obligation': 'witness:' + w['driver'], 'engine': 'replay', 'clause': 'the property statement, on the inputs of the driver (sanitizer build of the working tree)',
                       'scenario': {'driver': w['driver'], 'args': []}, 'reproduced': True, 'observed': '\n'.join(w['violating_observations']) or w['tail']}, open(path, 'w'), indent=1)
            violations += 1
            lines.append('VIOLATION property=%s replay=%s' % (pid, path))
        elif w['reproduced'] is None:
            witness_errors.append('witness driver %s did not run to a verdict: %s' % (w['driver'], w['tail'][-200:].replace('\n', ' ')))
    status = 0
    if violations: status = 1
    infra = []
    if errors: infra += errors
    infra += witness_errors
    if undecided: infra += ['undecided obligation %s (%s)' % (o['id'], o['text'][:80]) for o in undecided]
    if vac: infra += ['vacuous precondition set: %s' % v for v in vac]
    if not ok_canary: infra.append('canary obligations were not decided as expected: %s' % canary_info)
    if infra and status == 0: status = 2
    discharged = sum(1 for o in obligations if o['verdict'] == 'proved')
    samples = []
    for o in obligations[:1] + obligations[len(obligations) // 2: len(obligations) // 2 + 1] + obligations[-1:]:
        samples.append({'obligation': o['id'], 'clause': o['text'], 'verdict': o['verdict'], 'backend': o['backend'], 'seconds': o['seconds']})
    for o in failed[-1:]:
        samples.append({'obligation': o['id'], 'clause': o['text'], 'verdict': 'failed', 'counterexample': o.get('model')})
    assumptions = [GLOBAL_ASSUMPTIONS[a] for a in ('A1', 'A2', 'A3', 'A4', 'A5', 'A8')] + meta.get('assumptions', [])
    ev = {
        'property_id': pid, 'tier': tier, 'seed': seed, 'level': meta.get('level', 'proof'),
        'coverage': {
            'obligations': len(obligations), 'discharged': discharged,
            'checker_cmd': 'bin/check %s --tier %s  (python3-vt -m lpv.check; E2: lpv symbolic execution -> z3 %s; E1: goto-cc/goto-instrument --dfcc/cbmc 6.11 cadical)' % (pid, tier, _z3v()),
            'trusted_base': ['lpv/ir.py AST->IR translator', 'lpv/e2.py VC generator', 'lpv/solve.py quantifier instantiation / array elimination', 'z3', 'clang 14 AST dump', 'cbmc 6.11 (E1 goals)'] + meta.get('trusted', []),
            'samples': samples,
            'functions_under_contract': functions,
            'backends': backends,
            'solver_seconds': round(solver_s, 2),
            'axiom_instances_assumed': axioms,
            'bounded_stand_ins': bounded,
            'not_decided': meta.get('not_decided', []),
            'canaries': canary_info,
            'undecided': [o['id'] for o in undecided],
            'failed': [o['id'] for o in failed],
            'infrastructure_problems': infra,
            'known_findings': [k.get('finding_id') for k in known],
            'witness_replays': meta.get('witness_replays'),
            'witness_replays_note': 'thorough tier only: executions of the real code (ASan + UBSan build of the working tree) on inputs derived from the contract clauses and the property statement; testing, not proof, and not counted among the obligations',
            'seeded_self_test': meta.get('seeded_self_test'),
            'undetected_seeded_changes': [x['seeded_change'] for x in (meta.get('seeded_self_test') or []) if x['verdict'] != 'detected'],
            'a7_validation': meta.get('a7_validation'),
            'explanation': 'every obligation generated from the contracts of the listed functions (extracted from /repo on this run) was handed to the solver; discharged counts those answered unsat',
        },
        'assumptions': assumptions,
        'wall_s': round(time.time() - t0, 2),
        'violations': violations,
    }
    os.makedirs(os.path.join(OUT, 'evidence'), exist_ok=True)
    json.dump(ev, open(os.path.join(OUT, 'evidence', pid + '.json'), 'w'), indent=1, default=str)
    for l in lines: print(l)
    for i in infra: print('UNDECIDED property=%s %s' % (pid, i))
    print('%s: %d obligations, %d discharged, %d failed, %d undecided, %.1fs (tier %s)' % (pid, len(obligations), discharged, len(failed), len(undecided), time.time() - t0, tier))
    return status


def _z3v():
    try:
        import z3
        return z3.get_version_string()
    except Exception:
        return '?'
