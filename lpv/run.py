"""command line: python3-vt -m lpv.run e2 <function-key|lemma:NAME> ..."""
import sys, time, json
from . import cast, spec as SP, e2


def units_for(keys=None):
    return cast.all_units()


def main(argv):
    db = SP.load_all()
    units = units_for()
    V = e2.Verifier(units, db)
    t0 = time.time()
    for k in argv:
        if k.startswith('lemma:'):
            print(V.verify_lemma(k[6:]))
        else:
            print(V.verify_function(k))
    t1 = time.time()
    obs = V.discharge_all(verbose=True)
    t2 = time.time()
    by = {}
    for ob in obs: by[ob.result['verdict']] = by.get(ob.result['verdict'], 0) + 1
    print('obligations', len(obs), by, 'gen %.1fs solve %.1fs' % (t1 - t0, t2 - t1))
    print("vacuous:", V.check_vacuity(), "static:", getattr(V, "static_failures", []), "bounded:", getattr(V, "bounded", []))
    slow = sorted(obs, key=lambda o: -o.result['seconds'])[:5]
    for o in slow: print('  slow', o.id, o.result['seconds'], o.result['backend'], o.result['log'])


if __name__ == '__main__':
    main(sys.argv[2:] if sys.argv[1] == 'e2' else sys.argv[1:])
