"""fork-based parallel map (nestable; children inherit the parent's memory, results come back pickled)."""
import os, pickle, sys, traceback, select


def pmap(func, items, nproc):
    items = list(items)
    n = len(items)
    if n == 0: return []
    if nproc <= 1 or n == 1:
        return [func(x) for x in items]
    results = [None] * n
    pending = list(range(n))
    running = {}       # fd -> (pid, index, buffer)
    def launch(i):
        r, w = os.pipe()
        pid = os.fork()
        if pid == 0:
            os.close(r)
            try:
                try:
                    out = ('ok', func(items[i]))
                except BaseException as ex:
                    out = ('err', '%s: %s\n%s' % (type(ex).__name__, ex, traceback.format_exc()[-1500:]))
                data = pickle.dumps(out)
                with os.fdopen(w, 'wb') as f:
                    f.write(data)
            finally:
                os._exit(0)
        os.close(w)
        running[r] = (pid, i, [])
    while pending or running:
        while pending and len(running) < nproc:
            launch(pending.pop(0))
        rl, _, _ = select.select(list(running.keys()), [], [], 5.0)
        for fd in rl:
            chunk = os.read(fd, 1 << 20)
            pid, i, buf = running[fd]
            if chunk:
                buf.append(chunk)
            else:
                os.close(fd)
                os.waitpid(pid, 0)
                del running[fd]
                data = b''.join(buf)
                try:
                    results[i] = pickle.loads(data) if data else ('err', 'worker died without result')
                except Exception as ex:
                    results[i] = ('err', 'cannot unpickle: %s' % ex)
    out = []
    for r in results:
        if r[0] == 'ok': out.append(r[1])
        else: raise RuntimeError(r[1])
    return out
