"""clang AST loading: one JSON dump per source file, filtered to namespace libphysica."""
import json, os, subprocess, hashlib, sys

REPO = os.environ.get('LPV_REPO', '/repo')
CACHE = os.environ.get('LPV_CACHE', '/verif/build/ast')

SOURCES = ['Numerics.cpp', 'Linear_Algebra.cpp', 'Integration.cpp', 'Special_Functions.cpp',
           'Statistics.cpp', 'Utilities.cpp', 'Natural_Units.cpp']


DRIVERS = ['/verif/drivers/list_templates.cpp']


def all_units():
    return [Unit(s) for s in SOURCES] + [Unit(d) for d in DRIVERS if os.path.exists(d)]


def _hash_inputs(src):
    h = hashlib.sha256()
    for root in (os.path.join(REPO, 'include', 'libphysica'),):
        for fn in sorted(os.listdir(root)):
            h.update(fn.encode()); h.update(open(os.path.join(root, fn), 'rb').read())
    h.update(open(src, 'rb').read())
    return h.hexdigest()[:24]


def dump(src_name, extra_src=None):
    """Return list of top-level AST objects (NamespaceDecl...) for a source file of REPO/src
    (or an absolute path of a generated driver TU)."""
    src = src_name if os.path.isabs(src_name) else os.path.join(REPO, 'src', src_name)
    os.makedirs(CACHE, exist_ok=True)
    key = _hash_inputs(src)
    cache = os.path.join(CACHE, os.path.basename(src) + '.' + key + '.json')
    if not os.path.exists(cache):
        gen = os.path.join(REPO, '_build', 'generated')
        cmd = ['clang++', '-std=c++14', '-fsyntax-only', '-w', '-I' + os.path.join(REPO, 'include'),
               '-I' + gen, '-I/verif/build/generated', '-Xclang', '-ast-dump=json', '-Xclang',
               '-ast-dump-filter=libphysica', src]
        r = subprocess.run(cmd, capture_output=True, text=True)
        if r.returncode != 0:
            raise RuntimeError('clang failed on %s:\n%s' % (src, r.stderr[-2000:]))
        tmp = cache + '.tmp%d' % os.getpid()
        open(tmp, 'w').write(r.stdout)
        os.replace(tmp, cache)
        # drop stale dumps of the same file
        for fn in os.listdir(CACHE):
            if fn.startswith(os.path.basename(src) + '.') and fn != os.path.basename(cache) and fn.endswith('.json'):
                try: os.remove(os.path.join(CACHE, fn))
                except OSError: pass
    s = open(cache).read()
    dec = json.JSONDecoder(); i = 0; objs = []
    n = len(s)
    while i < n:
        while i < n and s[i].isspace(): i += 1
        if i >= n: break
        o, i = dec.raw_decode(s, i)
        objs.append(o)
    return objs


class Unit:
    """Indexed view of one translation unit."""
    def __init__(self, src_name):
        self.src = src_name
        self.objs = dump(src_name)
        self.by_id = {}
        self.funcs = {}      # mangled -> decl with body
        self.records = {}    # qualified record name -> decl
        self.globals = {}    # name -> VarDecl at namespace scope
        seen = set()
        self._fnstack = []; self._lamcount = {}
        self.aliases = {}    # stable lambda key -> mangled name
        for o in self.objs:
            self._index(o, [], seen)

    def _index(self, n, scope, seen):
        if not isinstance(n, dict): return
        i = n.get('id')
        k = n.get('kind')
        if i is not None and k and k.endswith('Decl'):
            if i in self.by_id and 'inner' not in n:
                pass
            else:
                self.by_id[i] = n
            n['_scope'] = '::'.join(scope)
        pushed = False
        if k in ('FunctionDecl', 'CXXMethodDecl', 'CXXConstructorDecl', 'CXXConversionDecl', 'CXXDestructorDecl'):
            if any(c.get('kind') == 'CompoundStmt' for c in n.get('inner', [])) and n.get('mangledName'):
                self.funcs[n['mangledName']] = n
                key = n['mangledName']
                if n['mangledName'] in self.aliases.values():
                    key = [a for a, m_ in self.aliases.items() if m_ == n['mangledName']][0]     # second visit of the same lambda body
                elif self._fnstack and n.get('name') == 'operator()':
                    # a lambda's call operator: also reachable under a key that does not depend on the TU-wide lambda numbering
                    # ("lambda:<enclosing function>:<ordinal>[.<ordinal of nested lambda>...]", ordinals in source order)
                    parent = self._fnstack[-1]
                    i_ = self._lamcount.get(parent, 0); self._lamcount[parent] = i_ + 1
                    key = (parent + '.%d' % i_) if parent.startswith('lambda:') else 'lambda:%s:%d' % (parent, i_)
                    self.funcs[key] = n; self.aliases[key] = n['mangledName']
                if k in ('FunctionDecl', 'CXXMethodDecl') :
                    self._fnstack.append(key); pushed = True
        if k == 'CXXRecordDecl' and n.get('completeDefinition') and n.get('name'):
            self.records['::'.join(scope + [n['name']])] = n
        if k == 'VarDecl' and scope and all(s_ for s_ in scope) and n.get('_fnlevel') is None and len(scope) >= 1 and not n.get('_infn') and not self._fnstack:
            self.globals.setdefault(n.get('name'), n)
        sub = scope
        if k in ('NamespaceDecl', 'CXXRecordDecl', 'ClassTemplateSpecializationDecl') and n.get('name'):
            sub = scope + [n['name']]
        for c in n.get('inner', []):
            self._index(c, sub, seen)
        if pushed: self._fnstack.pop()


def short(n, d=0, maxd=99, out=None):
    """Debug print of an AST subtree."""
    out = out if out is not None else sys.stdout
    if d > maxd: return
    t = n.get('type', {})
    tt = t.get('desugaredQualType') or t.get('qualType')
    extra = {k: v for k, v in n.items() if k in ('name', 'opcode', 'castKind', 'value', 'mangledName', 'isPostfix', 'referencedMemberDecl', 'valueCategory', 'init', 'hasElse', 'isArrow', 'list')}
    rd = n.get('referencedDecl')
    if rd: extra['ref'] = (rd.get('kind'), rd.get('name'), rd.get('id'))
    out.write('  ' * d + '%s [%s] %s\n' % (n.get('kind'), tt, extra))
    for c in n.get('inner', []):
        short(c, d + 1, maxd, out)


if __name__ == '__main__':
    u = Unit(sys.argv[1])
    if len(sys.argv) > 2:
        for m, f in u.funcs.items():
            if sys.argv[2] in m or sys.argv[2] == f.get('name'):
                print('==', m)
                short(f)
    else:
        for m, f in u.funcs.items():
            print(m, f.get('name'))
