"""Engine E2: symbolic execution of the IR into verification conditions over reals and integers
(DESIGN.md section 2.4).  double = Real (assumption A1), integers = Int with explicit wrap."""
import time, fractions, copy, sys
import z3
from . import ir as IR
from . import spec as SP
from .solve import Quant, discharge, subterms as _subterms_list


def _subterms(e):
    return _subterms_list([e])


def _free_consts(e):
    out = set()
    for s_ in _subterms_list([e]):
        if z3.is_app(s_) and s_.num_args() == 0 and s_.decl().kind() == z3.Z3_OP_UNINTERPRETED: out.add(s_.decl().name())
        elif z3.is_app(s_) and s_.num_args() > 0 and s_.decl().kind() == z3.Z3_OP_UNINTERPRETED and not s_.decl().name() in ('cos', 'sin', 'exp', 'log', 'sqrt', 'pow', 'acos', 'erf', 'floor', 'log10', 'pow10'):
            out.add('f:' + s_.decl().name())
    return out


INTS = ('int', 'uint', 'long', 'ulong', 'char')
RANGE = {'int': (-2 ** 31, 2 ** 31 - 1), 'uint': (0, 2 ** 32 - 1), 'long': (-2 ** 63, 2 ** 63 - 1), 'ulong': (0, 2 ** 64 - 1), 'char': (-128, 127)}


class E2Error(Exception):
    pass


class Seq:
    """sequence value: arr (Array Int -> elem), n length; nested: lens (Array Int -> Int)"""
    def __init__(self, et, arr, n, lens=None):
        self.et = et; self.arr = arr; self.n = n; self.lens = lens

    def at(self, i):
        if IR.is_seq(self.et):
            return Seq(IR.elem(self.et), z3.Select(self.arr, i), z3.Select(self.lens, i))
        if isinstance(self.arr, dict):       # sequence of records with scalar fields, kept as one array per field (read-only)
            return Rec(self.et[4:] if self.et.startswith('rec:') else self.et, {fn: z3.Select(a, i) for fn, a in self.arr.items()})
        return z3.Select(self.arr, i)


class Rec:
    def __init__(self, name, f):
        self.name = name; self.f = f


class PySeq:
    """sequence of records with a concrete length (only in bounded views where every index is a constant)"""
    def __init__(self, et, items):
        self.et = et; self.items = list(items)

    @property
    def n(self): return z3.IntVal(len(self.items))


class Iter:
    """iterator value: position `off` in the sequence designated by IR expression `base`"""
    def __init__(self, base, off):
        self.base = base; self.off = off


class Fun:
    def __init__(self, uf, spec=None, lam=None):
        self.uf = uf; self.spec = spec; self.lam = lam


class Str:
    def __init__(self, v=None, sym=None):
        self.v = v; self.sym = sym


_cnt = [0]


def fresh(name, sort):
    _cnt[0] += 1
    return z3.Const('%s!%d' % (name, _cnt[0]), sort)


def zsort(t):
    if t in INTS: return z3.IntSort()
    if t == 'bool': return z3.BoolSort()
    if t == 'double': return z3.RealSort()
    if IR.is_seq(t):
        return z3.ArraySort(z3.IntSort(), zsort(IR.elem(t)))
    raise E2Error('no sort for type %s' % t)


def realval(v, text=None):
    """a floating literal denotes the double nearest to its decimal text (in code and in clauses alike)"""
    if text is not None:
        try:
            return z3.RealVal(str(fractions.Fraction(float(text))))
        except Exception:
            pass
    if isinstance(v, float):
        return z3.RealVal(str(fractions.Fraction(v)))
    return z3.RealVal(v)


class State:
    def __init__(self):
        self.env = {}
        self.pc = []
        self.pc_int = []
        self.old = None
        self.loop_old = None
        self.scope = None       # source-name -> IR-name map at the innermost loop head (for clause names)
        self.ghost = {}

    def clone(self):
        s = State()
        s.env = dict(self.env); s.pc = list(self.pc); s.pc_int = list(self.pc_int)
        s.old = self.old; s.loop_old = self.loop_old; s.scope = self.scope; s.ghost = self.ghost
        return s

    def assume(self, h):
        if isinstance(h, Quant):
            self.pc.append(h); return
        if z3.is_true(h): return
        self.pc.append(h)
        if _int_only(h): self.pc_int.append(h)


def _int_only(h):
    from .solve import subterms
    for s in subterms([h]):
        k = s.sort().kind()
        if k == z3.Z3_REAL_SORT: return False
        if k == z3.Z3_ARRAY_SORT and s.sort().range().kind() != z3.Z3_INT_SORT: return False
        if z3.is_quantifier(s): return False
    return True


class Obligation:
    def __init__(self, oid, hyps, goal, kind, text, where, skolems=()):
        self.id = oid; self.hyps = hyps; self.goal = goal; self.kind = kind; self.text = text; self.where = where
        self.skolems = skolems
        self.result = None


class Records:
    """record layouts from the AST"""
    def __init__(self, units):
        self.layout = {}
        for u in units:
            for q, d in u.records.items():
                nm = q.split('::')[-1]
                fields = []
                bases = []
                for c in d.get('inner', []):
                    if c.get('kind') == 'FieldDecl':
                        fields.append((c['name'], IR.node_ty(c)))
                for b in d.get('bases', []):
                    bt = IR.ty(b['type'].get('desugaredQualType') or b['type']['qualType'])
                    bases.append(bt[4:] if bt.startswith('rec:') else bt)
                if nm not in self.layout or len(fields) > len(self.layout[nm][0]):
                    self.layout[nm] = (fields, bases)

    def fields(self, name):
        if name not in self.layout: raise E2Error('unknown record %s' % name)
        fs, bases = self.layout[name]
        out = []
        for b in bases:
            out += self.fields(b)
        return out + fs


class Engine:
    def __init__(self, units, db, budget=20.0):
        self.units = units            # list of cast.Unit
        self.db = db
        self.records = Records(units)
        self.funcs = {}               # mangled -> IR.Func (lazily translated)
        self.obligations = []
        self.budget = budget
        self.ufs = {}
        self.cur = None               # current function spec
        self.mode = 'accept'
        self.prefix = ''
        self.notes = []
        self.axiom_instances = 0
        self.depth = 0
        self.stats = {'paths': 0, 'pruned': 0}
        self.lemmas_used = set()

    # ------------------------------------------------------------ lookup
    def func(self, mangled):
        if mangled in self.funcs: return self.funcs[mangled]
        for u in self.units:
            if mangled in u.funcs:
                f = IR.Translator(u).func(mangled)
                self.funcs[mangled] = f
                return f
        raise E2Error('function %s not found' % mangled)

    def spec_of(self, mangled):
        v = self.cur.options.get('callee_view') if self.cur is not None else None      # an explicit callee view wins
        if v == 'base': return self.db.funcs.get(mangled)
        if v and (mangled + '~' + v) in self.db.funcs: return self.db.funcs[mangled + '~' + v]
        v = getattr(self, 'view', None)
        if v and (mangled + '~' + v) in self.db.funcs: return self.db.funcs[mangled + '~' + v]
        return self.db.funcs.get(mangled)

    def uf(self, name, *sorts):
        key = (name,) + tuple(str(s) for s in sorts)
        if key not in self.ufs:
            self.ufs[key] = z3.Function(name, *sorts)
        return self.ufs[key]

    # ------------------------------------------------------------ values
    def fresh_val(self, t, name, st, constrain=True):
        if t in INTS:
            v = fresh(name, z3.IntSort())
            if constrain:
                lo, hi = RANGE[t]
                st.assume(z3.And(v >= lo, v <= hi))
            return v
        if t == 'bool': return fresh(name, z3.BoolSort())
        if t == 'double': return fresh(name, z3.RealSort())
        if IR.is_seq(t):
            et = IR.elem(t)
            n = fresh(name + '.len', z3.IntSort())
            st.assume(z3.And(n >= 0, n <= 2 ** 31))
            if IR.is_seq(et):
                if not (IR.elem(et) in INTS or IR.elem(et) in ('double', 'bool')):
                    raise E2Error('sequence nesting deeper than two: %s' % t)
                lens = fresh(name + '.lens', z3.ArraySort(z3.IntSort(), z3.IntSort()))
                k = z3.Int('k!len')
                st.assume(Quant('k', z3.IntVal(0), n, (lambda kk, lens=lens: z3.And(z3.Select(lens, kk) >= 0, z3.Select(lens, kk) <= 2 ** 31)), 'row lengths within [0, 2^31]'))
                return Seq(et, fresh(name, zsort(t)), n, lens)
            if et.startswith('rec:') and all(ft in INTS or ft in ('double', 'bool') for fn, ft in self.records.fields(et[4:])):
                # records with scalar fields only: one array per field (such sequences are read, never written, in the functions under contract)
                return Seq(et, {fn: fresh('%s.%s' % (name, fn), z3.ArraySort(z3.IntSort(), z3.RealSort() if ft == 'double' else (z3.BoolSort() if ft == 'bool' else z3.IntSort()))) for fn, ft in self.records.fields(et[4:])}, n)
            if et.startswith('pair<') and all(ct in INTS or ct in ('double', 'bool') for ct in IR.split_targs(et[5:-1])):
                a_, b_ = IR.split_targs(et[5:-1])
                zs = lambda ct: z3.RealSort() if ct == 'double' else (z3.BoolSort() if ct == 'bool' else z3.IntSort())
                return Seq(et, {'first': fresh(name + '.first', z3.ArraySort(z3.IntSort(), zs(a_))), 'second': fresh(name + '.second', z3.ArraySort(z3.IntSort(), zs(b_)))}, n)
            if et.startswith('rec:') or et.startswith('pair<'):
                return Seq(et, None, n)      # opaque elements
            return Seq(et, fresh(name, zsort(t)), n)
        if t.startswith('rec:'):
            rn = t[4:]
            return Rec(rn, {fn: self.fresh_val(ft, '%s.%s' % (name, fn), st, constrain) for fn, ft in self.records.fields(rn)})
        if t.startswith('pair<'):
            a, b = IR.split_targs(t[5:-1])
            return Rec(t, {'first': self.fresh_val(a, name + '.first', st), 'second': self.fresh_val(b, name + '.second', st)})
        if t == 'fun':
            return Fun(name)
        if t == 'str':
            return Str(sym=name)
        if t in ('prng', 'urd') or t.startswith('other:'):
            return Str(sym=name)
        raise E2Error('cannot create symbolic value of type %s' % t)

    def default_val(self, t, st):
        if t in INTS: return z3.IntVal(0)
        if t == 'bool': return z3.BoolVal(False)
        if t == 'double': return z3.RealVal(0)
        if IR.is_seq(t):
            et = IR.elem(t)
            if IR.is_seq(et):
                return Seq(et, z3.K(z3.IntSort(), z3.K(z3.IntSort(), self.default_val(IR.elem(et), st))), z3.IntVal(0), z3.K(z3.IntSort(), z3.IntVal(0)))
            if et.startswith('rec:'): return PySeq(et, [])
            if et.startswith('pair<') and all(ct in INTS or ct in ('double', 'bool') for ct in IR.split_targs(et[5:-1])):
                a_, b_ = IR.split_targs(et[5:-1])
                return Seq(et, {'first': z3.K(z3.IntSort(), self.default_val(a_, st)), 'second': z3.K(z3.IntSort(), self.default_val(b_, st))}, z3.IntVal(0))
            return Seq(et, z3.K(z3.IntSort(), self.default_val(et, st)), z3.IntVal(0))
        return self.fresh_val(t, 'uninit', st)

    def ite_val(self, c, a, b):
        if isinstance(a, Seq):
            if a.arr is None: return a
            if isinstance(a.arr, dict): return Seq(a.et, {fn_: z3.If(c, a.arr[fn_], b.arr[fn_]) for fn_ in a.arr}, z3.If(c, a.n, b.n))
            return Seq(a.et, z3.If(c, a.arr, b.arr), z3.If(c, a.n, b.n), None if a.lens is None else z3.If(c, a.lens, b.lens))
        if isinstance(a, Rec):
            return Rec(a.name, {k: self.ite_val(c, a.f[k], b.f[k]) for k in a.f})
        if isinstance(a, (Fun, Str, Iter, PySeq)) or a is None: return a
        if a is b: return a
        a, b = self.unify(a, b)
        return z3.If(c, a, b)

    def unify(self, a, b):
        if z3.is_int(a) and z3.is_real(b): return z3.ToReal(a), b
        if z3.is_real(a) and z3.is_int(b): return a, z3.ToReal(b)
        return a, b

    # ------------------------------------------------------------ integer helpers
    def entails_int(self, st, f):
        s = z3.Solver(); s.set('timeout', 300)
        for h in st.pc_int: s.add(h)
        s.add(z3.Not(f))
        return s.check() == z3.unsat

    def wrap(self, v, t, st):
        """value of integer expression v converted to C type t"""
        if t not in RANGE: return v
        lo, hi = RANGE[t]
        if z3.is_int_value(v):
            x = v.as_long()
            if lo <= x <= hi: return v
            m = hi - lo + 1
            return z3.IntVal((x - lo) % m + lo)
        if self.entails_int(st, z3.And(v >= lo, v <= hi)): return v
        m = hi - lo + 1
        if t in ('int', 'long', 'char'):
            if self.cur is not None and self.cur.options.get('signed_overflow') == 'check':
                self.oblige(st, z3.And(v >= lo, v <= hi), 'overflow', 'signed %s arithmetic stays in range' % t)
            return v          # signed overflow: treated as mathematical (reported assumption)
        return (v - lo) % m + lo

    # ------------------------------------------------------------ obligations
    def oblige(self, st, goal, kind, text, skolems=()):
        if isinstance(goal, Quant):
            ks = [fresh(v + '!sk', z3.IntSort()) for v in goal.vars]
            hy = list(st.pc) + [goal.range_cond(*ks)]
            g = goal.fn(*ks)
            hy += list(getattr(goal.fn, 'extras', None) or [])
            skolems = tuple(skolems) + tuple(ks)
            hyps = hy
        else:
            g = goal; hyps = list(st.pc)
        parts = list(g.children()) if (z3.is_and(g) and isinstance(goal, Quant)) else [g]
        ob = None
        for n_, gp in enumerate(parts):
            oid = '%s%s.%d' % (self.prefix, kind, len(self.obligations))
            ob = Obligation(oid, hyps, gp, kind, text + (' [conjunct %d]' % (n_ + 1) if len(parts) > 1 else ''), self.prefix, skolems)
            self.obligations.append(ob)
        return ob

    # ------------------------------------------------------------ IR expressions
    def ev(self, e, st):
        m = getattr(self, 'e_' + e.k)
        return m(e, st)

    def e_lit(self, e, st):
        if e.v is None: return None          # default argument of an external function (not visible in the filtered AST)
        if e.t == 'bool': return z3.BoolVal(bool(e.v))
        if e.t == 'double': return realval(e.v, getattr(e, 'text', None))
        if e.t in INTS: return z3.IntVal(int(e.v))
        if e.t == 'void': return None
        raise E2Error('literal of type %s' % e.t)

    def e_str(self, e, st): return Str(v=e.v)

    def e_var(self, e, st):
        if e.name in st.env: return st.env[e.name]
        if getattr(e, 'glob', False):
            key = e.name
            if key not in st.env:
                st.env[key] = self.fresh_val(e.t, 'glob' + e.name.replace('::', '.'), st)
            return st.env[key]
        raise E2Error('unbound variable %s' % e.name)

    def e_field(self, e, st):
        b = self.ev(e.base, st)
        if not isinstance(b, Rec): raise E2Error('field of non-record')
        if e.name not in b.f: raise E2Error('no field %s in %s' % (e.name, b.name))
        return b.f[e.name]

    def e_index(self, e, st):
        b = self.ev(e.base, st)
        i = self.ev(e.idx, st)
        if isinstance(b, PySeq):
            i = z3.simplify(i)
            if not z3.is_int_value(i): raise E2Error('sequence of records indexed by a non-constant (only bounded views support it)')
            self.oblige(st, z3.BoolVal(0 <= i.as_long() < len(b.items)), 'bounds', 'index %s within [0, len(%s))' % (IR.pp_expr(e.idx), IR.pp_expr(e.base)))
            if not (0 <= i.as_long() < len(b.items)): return self.fresh_val(b.et, 'oob', st)
            return b.items[i.as_long()]
        if not isinstance(b, Seq): raise E2Error('index of non-sequence')
        self.oblige(st, z3.And(i >= 0, i < b.n), 'bounds', 'index %s within [0, len(%s))' % (IR.pp_expr(e.idx), IR.pp_expr(e.base)))
        if b.arr is None: raise E2Error('read of opaque sequence element')
        r = b.at(i)
        if isinstance(r, Seq): st.assume(z3.Implies(z3.And(i >= 0, i < b.n), z3.And(r.n >= 0, r.n <= 2 ** 31)))
        return r

    def e_len(self, e, st):
        b = self.ev(e.seq, st)
        return b.n

    def e_un(self, e, st):
        v = self.ev(e.e, st)
        if e.op == '-':
            r = -v
            return self.wrap(r, e.t, st) if e.t in INTS else r
        if e.op == '!': return z3.Not(v)
        raise E2Error('unary %s' % e.op)

    def e_cast(self, e, st):
        v = self.ev(e.e, st)
        src = e.e.t; dst = e.t
        if dst == 'double':
            if src == 'bool': return z3.If(v, z3.RealVal(1), z3.RealVal(0))
            return z3.ToReal(v) if z3.is_int(v) else v
        if dst in INTS:
            if src == 'double':
                # truncation towards zero
                if self.cur is not None and self.cur.options.get('prune_real'):
                    if not self.feasible(st, v < 0): return z3.ToInt(v)
                    if not self.feasible(st, v >= 0): return -z3.ToInt(-v)
                r = z3.If(v >= 0, z3.ToInt(v), -z3.ToInt(-v))
                return r
            if src == 'bool': return z3.If(v, z3.IntVal(1), z3.IntVal(0))
            return self.wrap(v, dst, st)
        if dst == 'bool':
            return v != 0
        raise E2Error('cast %s -> %s' % (src, dst))

    def e_cond(self, e, st):
        c = self.ev(e.c, st)
        if self.has_call(e.a) or self.has_call(e.b):
            sa = st.clone(); sa.assume(c)
            sb = st.clone(); sb.assume(z3.Not(c))
            a = self.ev(e.a, sa); b = self.ev(e.b, sb)
            self.join_into(st, c, sa, sb)
            return self.ite_val(c, a, b)
        a = self.ev(e.a, st); b = self.ev(e.b, st)
        return self.ite_val(c, a, b)

    def join_into(self, st, c, sa, sb):
        """merge two continuations of st (assumed c / not c) back into st"""
        n0 = len(st.pc) + 1
        for h in sa.pc[n0:]:
            st.assume(z3.Implies(c, h) if not isinstance(h, Quant) else self._guard(h, c))
        for h in sb.pc[n0:]:
            st.assume(z3.Implies(z3.Not(c), h) if not isinstance(h, Quant) else self._guard(h, z3.Not(c)))
        keys = set(sa.env) | set(sb.env)
        for k in keys:
            va = sa.env.get(k); vb = sb.env.get(k)
            if va is None or vb is None: continue
            if va is vb: st.env[k] = va
            else: st.env[k] = self.ite_val(c, va, vb)

    def _guard(self, q, c):
        g = c if q.guard is None else z3.And(c, q.guard)
        return Quant.multi(q.vars, q.rangefn, q.fn, q.text, g)

    def has_call(self, e):
        if e.k == 'call' and e.kind in ('user', 'callback'): return True
        if e.k == 'index': return True     # bounds obligations are path dependent
        for v in e.__dict__.values():
            if isinstance(v, IR.E) and v.k in IR.EXPR_KINDS and self.has_call(v): return True
            if isinstance(v, list):
                for a in v:
                    if isinstance(a, IR.E) and a.k in IR.EXPR_KINDS and self.has_call(a): return True
        return False

    def e_bin(self, e, st):
        op = e.op
        if op in ('&&', '||'):
            l = self.ev(e.l, st)
            ls_ = z3.simplify(l)
            if op == '&&' and z3.is_false(ls_): return z3.BoolVal(False)      # short circuit: the right operand is not evaluated
            if op == '||' and z3.is_true(ls_): return z3.BoolVal(True)
            if self.has_call(e.r):
                s2 = st.clone(); s2.assume(l if op == '&&' else z3.Not(l))
                r = self.ev(e.r, s2)
                s3 = st.clone(); s3.assume(z3.Not(l) if op == '&&' else l)
                self.join_into(st, l if op == '&&' else z3.Not(l), s2, s3)
            else:
                r = self.ev(e.r, st)
            return z3.And(l, r) if op == '&&' else z3.Or(l, r)
        l = self.ev(e.l, st); r = self.ev(e.r, st)
        if op in ('<', '<=', '>', '>=', '==', '!='):
            if isinstance(l, Str) or isinstance(r, Str):
                raise E2Error('string comparison outside str.eq')
            l, r = self.arith_conv(e.l.t, e.r.t, l, r, st)
            return {'<': l < r, '<=': l <= r, '>': l > r, '>=': l >= r, '==': l == r, '!=': l != r}[op]
        t = e.t
        if t == 'double':
            l, r = self.to_real(l), self.to_real(r)
            if op == '+': return l + r
            if op == '-': return l - r
            if op == '*': return l * r
            if op == '/':
                return l / r
            raise E2Error('double op %s' % op)
        if t in INTS or t == 'bool':
            l, r = self.arith_conv(e.l.t, e.r.t, l, r, st)
            if op == '+': v = l + r
            elif op == '-': v = l - r
            elif op == '*': v = l * r
            elif op == '/':
                self.oblige(st, r != 0, 'divzero', 'integer divisor %s is non-zero' % IR.pp_expr(e.r))
                v = self.cdiv(l, r, st)
            elif op == '%':
                self.oblige(st, r != 0, 'divzero', 'integer divisor %s is non-zero' % IR.pp_expr(e.r))
                if not z3.is_int_value(r) and self.entails_int(st, z3.And(l >= 0, r > 0)):
                    v = self.sym_divmod(l, r, st)[1]
                else:
                    v = l - r * self.cdiv(l, r, st)
            elif op == '>>':
                if not z3.is_int_value(r): raise E2Error('shift by non-constant')
                v = l / z3.IntVal(2 ** r.as_long())
            elif op == '<<':
                if not z3.is_int_value(r): raise E2Error('shift by non-constant')
                v = l * z3.IntVal(2 ** r.as_long())
            else:
                raise E2Error('int op %s' % op)
            if z3.is_int_value(l) and z3.is_int_value(r): v = z3.simplify(v)
            return self.wrap(v, t, st)
        raise E2Error('binary %s on %s' % (op, t))

    def cdiv(self, l, r, st):
        """C integer division (truncation); z3 '/' on Int is floor for positive divisors"""
        if self.entails_int(st, z3.And(l >= 0, r > 0)):
            if z3.is_int_value(r): return l / r
            # symbolic divisor: quotient and remainder by their defining equation (keeps the query out of z3's div axioms)
            return self.sym_divmod(l, r, st)[0]
        return z3.If(z3.And(l >= 0, r > 0), l / r,
                     z3.If(z3.And(l < 0, r > 0), -((-l) / r),
                           z3.If(z3.And(l >= 0, r < 0), -(l / (-r)), (-l) / (-r))))

    def sym_divmod(self, l, r, st):
        """quotient and remainder of l by a symbolic divisor r as fresh integers with l == r*q + m, 0 <= m < r
        (stated for l >= 0, r > 0); one pair per syntactic (l, r), shared by code and clauses"""
        self._divs = getattr(self, '_divs', {})
        self._div_terms = getattr(self, '_div_terms', {})
        ls, rs = z3.simplify(l), z3.simplify(r)
        key = (ls.sexpr(), rs.sexpr())
        if key not in self._divs:
            q = fresh('quot', z3.IntSort()); m = fresh('rem', z3.IntSort())
            pair = []
            # div/mod are functions of the dividend: congruence and the successor rule against every other dividend
            # with the same divisor (valid facts; they spare the solver the nonlinear uniqueness argument)
            for (l2s, r2s), (q2, m2, _, _) in self._divs.items():
                if r2s != key[1]: continue
                l2 = self._div_terms[(l2s, r2s)][0]
                ok = z3.And(ls >= 0, l2 >= 0, rs > 0)
                pair.append(z3.Implies(z3.And(ok, ls == l2), z3.And(q == q2, m == m2)))
                pair.append(z3.Implies(z3.And(ok, ls == l2 + 1), z3.If(m2 == rs - 1, z3.And(q == q2 + 1, m == 0), z3.And(q == q2, m == m2 + 1))))
                pair.append(z3.Implies(z3.And(ok, l2 == ls + 1), z3.If(m == rs - 1, z3.And(q2 == q + 1, m2 == 0), z3.And(q2 == q, m2 == m + 1))))
                pair.append(z3.Implies(z3.And(ok, ls <= l2), q <= q2))
                pair.append(z3.Implies(z3.And(ok, l2 <= ls), q2 <= q))
            self._div_terms = getattr(self, '_div_terms', {})
            self._div_terms[key] = (ls, rs)
            self._divs[key] = (q, m, z3.Implies(z3.And(ls >= 0, rs > 0), z3.And(ls == rs * q + m, m >= 0, m < rs, q >= 0)), pair)
        q, m, ax, pair = self._divs[key]
        have = set(h.get_id() for h in st.pc[-120:] if not isinstance(h, Quant))
        for a in [ax] + pair:
            if a.get_id() not in have: st.pc.append(a)
        return q, m

    def to_real(self, v):
        if z3.is_bool(v): return z3.If(v, z3.RealVal(1), z3.RealVal(0))
        return z3.ToReal(v) if z3.is_int(v) else v

    def arith_conv(self, lt, rt, l, r, st):
        """usual arithmetic conversions for a binary operator on C operands"""
        if z3.is_bool(l): l = z3.If(l, z3.IntVal(1), z3.IntVal(0))
        if z3.is_bool(r): r = z3.If(r, z3.IntVal(1), z3.IntVal(0))
        if z3.is_real(l) or z3.is_real(r):
            return self.to_real(l), self.to_real(r)
        return l, r

    def e_seqctor(self, e, st):
        t = e.t; et = IR.elem(t)
        f = e.form
        if f == 'empty': return self.default_val(t, st)
        if f == 'copy': return self.ev(e.args[0], st)
        if f in ('n', 'nv'):
            n = self.ev(e.args[0], st)
            self.oblige(st, n >= 0, 'bounds', 'vector size %s is non-negative' % IR.pp_expr(e.args[0]))
            if f == 'nv': v = self.ev(e.args[1], st)
            else: v = self.default_val(et, st)
            if isinstance(v, Seq):
                return Seq(et, z3.K(z3.IntSort(), v.arr), n, z3.K(z3.IntSort(), v.n))
            if et == 'double': v = self.to_real(v)
            return Seq(et, z3.K(z3.IntSort(), v), n)
        if f == 'list':
            vals = [self.ev(a, st) for a in e.args]
            if IR.is_seq(et):
                arr = z3.K(z3.IntSort(), z3.K(z3.IntSort(), self.default_val(IR.elem(et), st)))
                lens = z3.K(z3.IntSort(), z3.IntVal(0))
                for i, v in enumerate(vals):
                    arr = z3.Store(arr, i, v.arr); lens = z3.Store(lens, i, v.n)
                return Seq(et, arr, z3.IntVal(len(vals)), lens)
            if et.startswith('rec:'):
                return Seq(et, None, z3.IntVal(len(vals)))
            arr = z3.K(z3.IntSort(), self.default_val(et, st))
            for i, v in enumerate(vals):
                if et == 'double': v = self.to_real(v)
                arr = z3.Store(arr, i, v)
            return Seq(et, arr, z3.IntVal(len(vals)))
        if f == 'range':
            return self.seq_range(e, st)
        raise E2Error('sequence constructor %s' % f)

    def seq_range(self, e, st):
        a, b = e.args
        # (&v[i1], &v[i2] + 1)  or (begin()+i, begin()+j)
        def ptr(x):
            off = z3.IntVal(0)
            while True:
                if x.k == 'call' and x.fn in ('iter+', 'iter-'):
                    d = self.ev(x.args[1], st)
                    off = off + d if x.fn == 'iter+' else off - d
                    x = x.args[0]; continue
                if x.k == 'bin' and x.op in ('+', '-') and (x.l.t or '').startswith('ptr'):
                    d = self.ev(x.r, st)
                    off = off + d if x.op == '+' else off - d
                    x = x.l; continue
                break
            if x.k == 'un' and x.op == '&' and x.e.k == 'index':
                base = self.ev(x.e.base, st)
                return base, self.ev(x.e.idx, st) + off, x.e.base
            if x.k == 'call' and x.fn == 'seq.begin':
                return self.ev(x.args[0], st), off, x.args[0]
            if x.k == 'call' and x.fn == 'seq.end':
                s = self.ev(x.args[0], st)
                return s, s.n + off, x.args[0]
            raise E2Error('range constructor operand %s' % IR.pp_expr(x))
        s1, lo, b1 = ptr(a); s2, hi, b2 = ptr(b)
        if IR.pp_expr(b1) != IR.pp_expr(b2): raise E2Error('range over two different sequences')
        self.oblige(st, z3.And(lo >= 0, lo <= s1.n), 'bounds', 'range start within the sequence')
        self.oblige(st, z3.And(hi >= lo, hi <= s1.n), 'bounds', 'range end within the sequence (one past the last element at most)')
        n = hi - lo
        r = self.fresh_val(e.t, 'range', st)
        st.assume(r.n == n)
        st.assume(Quant('k', z3.IntVal(0), n, (lambda k, r=r, s1=s1, lo=lo: z3.Select(r.arr, k) == z3.Select(s1.arr, lo + k)), 'range copy'))
        return r

    # ------------------------------------------------------------ primitive calls
    def libm(self, name, args, st):
        a = [self.to_real(x) for x in args]
        if name == 'fabs':
            if self.cur is not None and self.cur.options.get('prune_real') and st is not None:
                if not self.feasible(st, a[0] < 0): return a[0]
                if not self.feasible(st, a[0] >= 0): return -a[0]
            return z3.If(a[0] >= 0, a[0], -a[0])
        if name == 'iabs': return z3.If(args[0] >= 0, args[0], -args[0])
        if name == 'copysign':
            return z3.If(a[1] >= 0, z3.If(a[0] >= 0, a[0], -a[0]), z3.If(a[0] >= 0, -a[0], a[0]))      # (a negative zero has no counterpart here: A1)
        if name in ('llround', 'lround'):
            # nearest integer, halves away from zero; the value must be representable in the (64-bit) result type
            x_ = a[0]
            r_ = z3.If(x_ >= 0, z3.ToInt(x_ + z3.RealVal('1/2')), -z3.ToInt(-x_ + z3.RealVal('1/2')))
            self.oblige(st, z3.And(r_ >= -2 ** 63, r_ <= 2 ** 63 - 1), 'conversion', '%s: the rounded value fits the integer result type' % name)
            return r_
        if name in ('isnan', 'isinf'): return z3.BoolVal(False)      # A1
        if name == 'isfinite': return z3.BoolVal(True)
        if name == 'pow':
            if z3.is_rational_value(a[1]) and a[1].denominator_as_long() == 1 and 0 <= a[1].numerator_as_long() <= 6:
                n = a[1].numerator_as_long()
                r = z3.RealVal(1)
                for _ in range(n): r = r * a[0]
                return r
            if z3.is_rational_value(a[0]) and a[0].numerator_as_long() == 10 and a[0].denominator_as_long() == 1:
                f = self.uf('pow10', z3.RealSort(), z3.RealSort())
                r = f(a[1]); st.assume(r > 0); self.axiom_instances += 1
                # powers of ten with opposite exponents are reciprocal (instances between the applications met so far in this function)
                seen_ = getattr(self, 'pow10_args', None)
                if seen_ is None: seen_ = self.pow10_args = []
                for t_ in seen_[-6:]:
                    st.assume(z3.Implies(a[1] + t_ == 0, r * f(t_) == 1)); self.axiom_instances += 1
                if not any(t_.eq(a[1]) for t_ in seen_): seen_.append(a[1])
                return r
            f = self.uf('pow', z3.RealSort(), z3.RealSort(), z3.RealSort())
            r = f(a[0], a[1])
            st.assume(z3.Implies(a[0] > 0, r > 0)); self.axiom_instances += 1      # a positive base has a positive power
            return r
        f = self.uf(name, *([z3.RealSort()] * (len(a) + 1)))
        r = f(*a)
        x = a[0] if a else None
        if name == 'sqrt':
            st.assume(z3.Implies(x >= 0, z3.And(r >= 0, r * r == x))); self.axiom_instances += 1
        elif name == 'exp':
            st.assume(r > 0); self.axiom_instances += 1
        elif name == 'log':
            ex = self.uf('exp', z3.RealSort(), z3.RealSort())
            st.assume(z3.Implies(x > 0, ex(r) == x)); self.axiom_instances += 1
            st.assume(z3.And(z3.Implies(x >= 1, r >= 0), z3.Implies(z3.And(x > 0, x <= 1), r <= 0)))      # sign of the logarithm
            if z3.is_app(x) and x.decl().kind() == z3.Z3_OP_DIV:
                a_, b_ = x.arg(0), x.arg(1)
                st.assume(z3.Implies(z3.And(a_ > 0, b_ > 0), r == f(a_) - f(b_))); self.axiom_instances += 1
                st.assume(z3.Implies(a_ > 0, ex(f(a_)) == a_)); st.assume(z3.Implies(b_ > 0, ex(f(b_)) == b_))
        elif name in ('sin', 'cos'):
            s = self.uf('sin', z3.RealSort(), z3.RealSort())(x); c = self.uf('cos', z3.RealSort(), z3.RealSort())(x)
            st.assume(s * s + c * c == 1); self.axiom_instances += 1
        elif name == 'floor':
            st.assume(z3.And(r <= x, x < r + 1, z3.IsInt(r))); self.axiom_instances += 1
        elif name in ('erf',):
            st.assume(z3.And(r >= -1, r <= 1)); self.axiom_instances += 1
        elif name == 'acos':
            c = self.uf('cos', z3.RealSort(), z3.RealSort())(r)
            st.assume(z3.Implies(z3.And(x >= -1, x <= 1), z3.And(c == x, r >= 0))); self.axiom_instances += 1
            # the principal value is at most pi, stated with the smallest double above pi (3.14159265358979356...; spec literals are doubles)
            st.assume(z3.Implies(z3.And(x >= -1, x <= 1), r <= z3.RealVal(str(fractions.Fraction(float('3.1415926535897936')))))); self.axiom_instances += 1
        return r

    def e_call(self, e, st):
        if e.kind == 'prim' and not (isinstance(e.fn, str) and e.fn.startswith('ext.')): return self.prim(e, st)
        if e.kind == 'user': return self.user_call(e, st)
        if e.kind == 'callback': return self.callback(e, st)
        if e.kind == 'ext' or (e.kind == 'prim' and isinstance(e.fn, str) and e.fn.startswith('ext.')):
            nm = e.fn.split(':')[-1].split('.')[-1]
            if e.fn == 'ext:ctor:urd' and len(e.args) == 2:
                # R18: std::uniform_real_distribution<double>(a, b); the standard requires a <= b
                a_, b_ = [self.to_real(self.ev(x, st)) for x in e.args]
                self.oblige(st, a_ <= b_, 'std.requires', 'std::uniform_real_distribution(a, b) is constructed with a <= b')
                o_ = Str(sym='urd'); o_.urd = (a_, b_)
                return o_
            if e.fn == 'ext:operator()' and len(e.args) == 2 and getattr(e.args[0], 't', None) == 'urd':
                d_ = self.ev(e.args[0], st)
                if getattr(d_, 'urd', None) is None: raise E2Error('uniform_real_distribution object of unknown parameters')
                a_, b_ = d_.urd
                r_ = fresh('urd.draw', z3.RealSort())
                st.assume(z3.And(a_ <= r_, r_ <= b_, z3.Implies(a_ < b_, r_ < b_)))      # trusted (R18): a draw lies in [a, b)
                self.notes.append('std::uniform_real_distribution draw: a value of [a, b) (trusted, R18)')
                return r_
            if e.fn.startswith('ext:ctor:'):
                return Str(sym='extobj')
            if self.cur is not None and nm in self.cur.externs:
                vals = [self.ev(a, st) for a in e.args]
                sc = []; tag = []
                for v in vals:
                    if isinstance(v, Fun): tag.append(v.uf)
                    elif isinstance(v, (Seq, Rec, Str, PySeq, Iter)) or v is None: tag.append('obj')
                    else: sc.append(self.to_real(v) if not z3.is_bool(v) else z3.If(v, z3.RealVal(1), z3.RealVal(0)))
                self.notes.append('external function %s summarised as an uninterpreted pure function (A6)' % nm)
                u = self.uf('ext_%s_%s' % (nm, '_'.join(tag)), *([z3.RealSort()] * (len(sc) + 1)))
                return u(*sc)
            raise E2Error('external call %s has no model' % e.fn)
        raise E2Error('call kind %s' % e.kind)

    def prim(self, e, st):
        fn = e.fn
        if fn in IR.LIBM or fn == 'iabs':
            return self.libm(fn, [self.ev(a, st) for a in e.args], st)
        if fn in ('std::min', 'std::max'):
            vals = [self.ev(a, st) for a in e.args]
            r = vals[0]
            for v in vals[1:]:
                r, v = self.unify(r, v)
                # std::min(a,b) = (b < a) ? b : a ; std::max(a,b) = (a < b) ? b : a
                r = z3.If(v < r, v, r) if fn == 'std::min' else z3.If(r < v, v, r)
            return r
        if fn in ('std::min_element.deref', 'std::max_element.deref'):
            s, lo, hi = self.iter_range(e.args[0], e.args[1], st)
            self.oblige(st, lo < hi, 'bounds', 'range handed to %s is non-empty (dereferenced result)' % fn.split('.')[0])
            self.oblige(st, z3.And(lo >= 0, hi <= s.n), 'bounds', 'iterator range within the sequence')
            r = fresh('ext', z3.RealSort() if s.et == 'double' else z3.IntSort())
            w = fresh('w', z3.IntSort())
            st.assume(z3.And(lo <= w, w < hi, r == z3.Select(s.arr, w)))
            if fn.startswith('std::min'):
                st.assume(Quant('k', lo, hi, (lambda k, s=s, r=r: r <= z3.Select(s.arr, k)), 'min_element'))
            else:
                st.assume(Quant('k', lo, hi, (lambda k, s=s, r=r: r >= z3.Select(s.arr, k)), 'max_element'))
            return r
        if fn == 'iter.deref':
            it = self.ev(e.args[0], st)
            if not isinstance(it, Iter): raise E2Error('dereference of a non-iterator')
            sq = self.ev_quiet(it.base, st)
            self.oblige(st, z3.And(it.off >= 0, it.off < sq.n), 'bounds', 'dereferenced iterator points to an element of the sequence')
            return sq.at(it.off)
        if fn in ('seq.begin', 'seq.end'):
            sq = self.ev_quiet(e.args[0], st)
            return Iter(e.args[0], z3.IntVal(0) if fn == 'seq.begin' else sq.n)
        if fn in ('iter+', 'iter-'):
            it = self.ev(e.args[0], st); d = self.ev(e.args[1], st)
            if not isinstance(it, Iter): raise E2Error('iterator arithmetic on non-iterator')
            return Iter(it.base, it.off + d if fn == 'iter+' else it.off - d)
        if fn == 'std::accumulate':
            sq, lo, hi = self.iter_range(e.args[0], e.args[1], st)
            init = self.ev(e.args[2], st)
            lo_, hi_ = z3.simplify(lo), z3.simplify(hi)
            if z3.is_int_value(lo_) and z3.is_int_value(hi_) and lo_.as_long() == 0 and 0 <= hi_.as_long() <= 16:
                # a short concrete range: the left-to-right sum itself
                self.oblige(st, hi <= sq.n, 'bounds', 'std::accumulate: the range lies within the sequence')
                acc_ = self.to_real(init) if sq.et == 'double' else init
                for k_ in range(hi_.as_long()): acc_ = acc_ + z3.Select(sq.arr, k_)
                return acc_
            if 'seqsum' not in self.db.specfns: raise E2Error('std::accumulate needs the spec function seqsum')
            self.oblige(st, z3.And(lo == 0, hi >= 0, hi <= sq.n), 'model', 'std::accumulate is modelled for ranges [begin, begin+n)')
            self.notes.append('std::accumulate modelled as the left-to-right sum (C++ standard)')
            r = self.specfn('seqsum', [sq, hi], st)
            return self.to_real(init) + r if sq.et == 'double' else init + r
        if fn == 'std::is_sorted':
            sq, lo, hi = self.iter_range(e.args[0], e.args[1], st)
            r = fresh('is_sorted', z3.BoolSort())
            w = fresh('unsorted_at', z3.IntSort())
            st.assume(z3.Implies(z3.Not(r), z3.And(lo <= w, w + 1 < hi, z3.Select(sq.arr, w) > z3.Select(sq.arr, w + 1))))
            st.assume(Quant('k', lo, hi - 1, (lambda kk, sq=sq: z3.Select(sq.arr, kk) <= z3.Select(sq.arr, kk + 1)), 'is_sorted', guard=r))
            return r
        if fn in ('std::upper_bound', 'std::lower_bound'):
            sq, lo, hi = self.iter_range(e.args[0], e.args[1], st)
            t = self.to_real(self.ev(e.args[2], st))
            pos = fresh('ub', z3.IntSort())
            st.assume(z3.And(lo <= pos, pos <= hi))
            self.notes.append('%s modelled by its contract on a sorted range (C++ standard)' % fn)
            if fn == 'std::upper_bound':
                st.assume(Quant('k', lo, pos, (lambda kk, sq=sq, t=t: z3.Select(sq.arr, kk) <= t), 'upper_bound: elements before the result are <= value'))
                st.assume(Quant('k', pos, hi, (lambda kk, sq=sq, t=t: z3.Select(sq.arr, kk) > t), 'upper_bound: elements from the result on are > value'))
            else:
                st.assume(Quant('k', lo, pos, (lambda kk, sq=sq, t=t: z3.Select(sq.arr, kk) < t), 'lower_bound'))
                st.assume(Quant('k', pos, hi, (lambda kk, sq=sq, t=t: z3.Select(sq.arr, kk) >= t), 'lower_bound'))
            ia = self.ev(e.args[0], st)
            return Iter(ia.base, pos)
        if fn == 'std::distance':
            a = self.ev(e.args[0], st); b = self.ev(e.args[1], st)
            if not isinstance(a, Iter) or not isinstance(b, Iter): raise E2Error('distance of non-iterators')
            return b.off - a.off
        if fn in ('iter==', 'iter!='):
            a = self.ev(e.args[0], st); b = self.ev(e.args[1], st)
            if not isinstance(a, Iter) or not isinstance(b, Iter): raise E2Error('iterator comparison of non-iterators')
            return (a.off == b.off) if fn == 'iter==' else (a.off != b.off)
        if fn == 'str.eq':
            a = self.ev(e.args[0], st); b = self.ev(e.args[1], st)
            if a.v is not None and b.v is not None: return z3.BoolVal(a.v == b.v)
            sym, lit = (a, b) if a.v is None else (b, a)
            return self.streq(sym, lit.v, st)
        if fn == 'seq.eq':
            a = self.ev(e.args[0], st); b = self.ev(e.args[1], st)
            r = fresh('seqeq', z3.BoolSort())
            k = z3.Int('k!eq')
            st.assume(r == z3.And(a.n == b.n, z3.ForAll([k], z3.Implies(z3.And(0 <= k, k < a.n), z3.Select(a.arr, k) == z3.Select(b.arr, k)))))
            return r
        if fn == 'std::make_pair' and len(e.args) == 2:
            a = self.ev(e.args[0], st); b = self.ev(e.args[1], st)
            return Rec(e.t if isinstance(e.t, str) and e.t.startswith('pair<') else 'pair<double,double>', {'first': a, 'second': b})
        raise E2Error('primitive %s in value position' % fn)

    def streq(self, sym, lit, st):
        """one boolean per (string value, literal); different literals are mutually exclusive (R14)"""
        self._strs = getattr(self, '_strs', {})
        b = z3.Bool('streq!%s!%s' % (sym.sym, lit))
        seen = self._strs.setdefault(sym.sym, {})
        if lit not in seen:
            for other, ob in seen.items():
                self._str_axioms = getattr(self, '_str_axioms', [])
                self._str_axioms.append(z3.Not(z3.And(b, ob)))
            seen[lit] = b
        for ax in getattr(self, '_str_axioms', []):
            if not any(ax.eq(h) for h in st.pc if not isinstance(h, Quant)): st.assume(ax)
        return b

    def iter_range(self, a, b, st):
        ia = self.ev(a, st); ib = self.ev(b, st)
        if not isinstance(ia, Iter) or not isinstance(ib, Iter): raise E2Error('iterator range expected')
        if IR.pp_expr(ia.base) != IR.pp_expr(ib.base): raise E2Error('iterator range over two sequences')
        return self.ev_quiet(ia.base, st), ia.off, ib.off

    # ------------------------------------------------------------ lvalues
    def assign(self, lhs, val, st):
        k = lhs.k
        if k == 'var':
            if getattr(lhs, 'glob', False) and lhs.name not in st.env:
                self.e_var(lhs, st)
            st.env[lhs.name] = val
            return
        if k == 'field':
            b = self.ev_nocheck(lhs.base, st)
            nb = Rec(b.name, dict(b.f)); nb.f[lhs.name] = val
            self.assign(lhs.base, nb, st)
            return
        if k == 'index':
            b = self.ev_nocheck(lhs.base, st)
            i = self.ev(lhs.idx, st)
            self.oblige(st, z3.And(i >= 0, i < b.n), 'bounds', 'index %s within [0, len(%s)) (write)' % (IR.pp_expr(lhs.idx), IR.pp_expr(lhs.base)))
            if isinstance(b.arr, dict): raise E2Error('write into a sequence of records (read-only model)')
            if isinstance(val, Seq):
                nb = Seq(b.et, z3.Store(b.arr, i, val.arr), b.n, z3.Store(b.lens, i, val.n))
            else:
                if b.et == 'double': val = self.to_real(val)
                nb = Seq(b.et, z3.Store(b.arr, i, val), b.n, b.lens)
            self.assign(lhs.base, nb, st)
            return
        if k == 'call' and lhs.kind == 'user' and getattr(lhs, 'ret_ref', False):
            lv = self.ref_call(lhs, st)
            return self.assign(lv, val, st)
        raise E2Error('assignment to %s' % k)

    def ev_nocheck(self, e, st):
        """evaluate an lvalue base without emitting a second bounds obligation"""
        if e.k == 'index':
            b = self.ev_nocheck(e.base, st); i = self.ev(e.idx, st)
            if isinstance(b, PySeq): return self.e_index(e, st)
            self.oblige(st, z3.And(i >= 0, i < b.n), 'bounds', 'index %s within [0, len(%s))' % (IR.pp_expr(e.idx), IR.pp_expr(e.base)))
            r = b.at(i)
            if isinstance(r, Seq): st.assume(z3.Implies(z3.And(i >= 0, i < b.n), z3.And(r.n >= 0, r.n <= 2 ** 31)))
            return r
        if e.k == 'call' and e.kind == 'user' and getattr(e, 'ret_ref', False):
            return self.ev_nocheck(self.ref_call(e, st), st)
        return self.ev(e, st)

    # ------------------------------------------------------------ spec expressions
    def sv(self, x, st, bound=None, old=False):
        """evaluate a spec expression to a z3 term / Seq / Rec"""
        bound = bound or {}
        k = x.k
        if k == 'num':
            return z3.IntVal(x.v) if isinstance(x.v, int) else realval(x.v, x.text)
        if k == 'strlit': return Str(v=x.v)
        if k == 'bool': return z3.BoolVal(x.v)
        if k == 'name':
            n = x.name
            if n in bound: return bound[n]
            if n in st.ghost: return st.ghost[n]
            env = st.env
            if st.scope and n in st.scope and st.scope[n] in env: return env[st.scope[n]]
            if n in env: return env[n]
            if ('$' + n) in env: return env['$' + n]
            if ('::' + n) in env: return env['::' + n]
            raise E2Error('clause name %r does not resolve in %s' % (n, self.prefix))
        if k == 'field':
            b = self.sv(x.base, st, bound)
            if isinstance(b, Rec):
                if x.name not in b.f: raise E2Error('clause field %s does not exist in %s' % (x.name, b.name))
                return b.f[x.name]
            if isinstance(b, Seq) and isinstance(b.arr, dict):
                # data.weight: the sequence of that field over a sequence of records
                if x.name not in b.arr: raise E2Error('clause field %s does not exist in the elements of %s' % (x.name, SP.show(x.base)))
                ft = dict(self.records.fields(b.et[4:]))[x.name]
                return Seq(ft, b.arr[x.name], b.n)
            raise E2Error('clause field access on non-record (%s)' % SP.show(x))
        if k == 'index':
            b = self.sv(x.base, st, bound); i = self.sv(x.idx, st, bound)
            if isinstance(b, PySeq):
                i_ = z3.simplify(i)
                if not (z3.is_int_value(i_) and 0 <= i_.as_long() < len(b.items)): raise E2Error('clause index %s into a concrete grid must be a constant in range' % SP.show(x))
                return b.items[i_.as_long()]
            if not isinstance(b, Seq): raise E2Error('clause index on non-sequence (%s)' % SP.show(x))
            return b.at(i)
        if k == 'len':
            b = self.sv(x.e, st, bound)
            return b.n
        if k == 'old':
            if st.old is None: raise E2Error('old() outside postcondition')
            s2 = st.clone(); s2.env = st.old
            return self.sv(x.e, s2, bound)
        if k == 'old_loop':
            s2 = st.clone(); s2.env = st.loop_old
            return self.sv(x.e, s2, bound)
        if k == 'un':
            v = self.sv(x.e, st, bound)
            return -v if x.op == '-' else z3.Not(v)
        if k == 'cond':
            c = self.sv(x.c, st, bound); a = self.sv(x.a, st, bound); b = self.sv(x.b, st, bound)
            return self.ite_val(c, a, b)
        if k == 'bin':
            op = x.op
            l = self.sv(x.l, st, bound); r = self.sv(x.r, st, bound)
            if op == '&&': return z3.And(l, r)
            if op == '||': return z3.Or(l, r)
            if op == '==>': return z3.Implies(l, r)
            if op == '<==>': return l == r
            if z3.is_bool(l) and not z3.is_bool(r): l = z3.If(l, 1, 0)
            if z3.is_bool(r) and not z3.is_bool(l): r = z3.If(r, 1, 0)
            l, r = self.unify(l, r)
            if op == '/':
                if z3.is_int(l) and z3.is_int(r):
                    return l / r if z3.is_int_value(z3.simplify(r)) else self.sym_divmod(l, r, st)[0]
                return self.to_real(l) / self.to_real(r)
            if op == '%':
                return l % r if z3.is_int_value(z3.simplify(r)) else self.sym_divmod(l, r, st)[1]
            return {'+': lambda: l + r, '-': lambda: l - r, '*': lambda: l * r, '<': lambda: l < r, '<=': lambda: l <= r,
                    '>': lambda: l > r, '>=': lambda: l >= r, '==': lambda: l == r, '!=': lambda: l != r}[op]()
        if k in ('forall', 'exists'):
            kv = z3.Int('%s!b%d' % (x.var, len(bound)))
            b2 = dict(bound); b2[x.var] = kv
            lo = self.sv(x.lo, st, bound); hi = self.sv(x.hi, st, bound)
            body = self.sv(x.body, st, b2)
            if k == 'forall': return z3.ForAll([kv], z3.Implies(z3.And(lo <= kv, kv < hi), body))
            return z3.Exists([kv], z3.And(lo <= kv, kv < hi, body))
        if k == 'call':
            n = x.name
            args = [self.sv(a, st, bound) for a in x.args]
            if n in ('fabs', 'sqrt', 'exp', 'log', 'sin', 'cos', 'pow', 'floor', 'acos', 'erf', 'log10'):
                return self.libm(n, args, st)
            if n in ('min', 'max'):
                r = args[0]
                for v in args[1:]:
                    r, v = self.unify(r, v)
                    r = z3.If(v < r, v, r) if n == 'min' else z3.If(r < v, v, r)
                return r
            if n == 'streq':
                a, b = args
                if a.v is not None and b.v is not None: return z3.BoolVal(a.v == b.v)
                sym, lit = (a, b) if a.v is None else (b, a)
                return self.streq(sym, lit.v, st)
            if n == 'real': return self.to_real(args[0])
            if n == 'samerow':      # two sequence values are the same value (same array term, same length)
                a_, b_ = args
                if not (isinstance(a_, Seq) and isinstance(b_, Seq)): raise E2Error('samerow(seq, seq) expected')
                return z3.And(a_.arr == b_.arr, a_.n == b_.n)
            if n == 'summary':
                # summary("Callee", k, args...): the value of the pure callee applied to the k-th lambda of this function (which may
                # capture only callbacks) and the given scalar arguments -- the term a contract call with that lambda produces
                if not (isinstance(args[0], Str) and args[0].v and z3.is_int_value(args[1])): raise E2Error('summary("Callee", ordinal, args...) expected')
                owner_ = getattr(self, 'clause_owner', None) or self.curkey       # the function whose contract this clause belongs to
                owner_spec = self.db.funcs.get(owner_) if getattr(self, 'clause_owner', None) else self.cur
                alias = 'lambda:%s:%d' % (owner_, args[1].as_long())
                if alias not in self.db.funcs: raise E2Error('summary: no contract for %s' % alias)
                lf = self.func(alias)
                lsp = self.db.funcs[alias]
                parts = [alias.split(':', 1)[1]]; extra_ = []
                for ct, cn in sorted(lsp.captures, key=lambda c_: c_[1]):
                    if ct == 'fun':
                        cbk = (owner_spec.callbacks.get(cn) if owner_spec is not None else None)
                        parts.append(cbk['uf'] if cbk else cn)
                    elif ct in ('real', 'double', 'int', 'uint', 'bool', 'long'):
                        # a captured scalar is an extra argument of the summary: its value is that of the variable of this name
                        cv = self.sv(SP.X('name', name=cn), st, bound)
                        extra_.append(self.to_real(cv) if not z3.is_bool(cv) else z3.If(cv, z3.RealVal(1), z3.RealVal(0)))
                    else:
                        raise E2Error('summary: lambda %s captures a %s; only callbacks and scalars are supported here' % (alias, ct))
                nm = 'pure_%s_%s' % (args[0].v, 'lam<' + '|'.join(parts) + '>')
                a_ = [self.to_real(v) for v in args[2:]] + extra_
                return self.uf(nm, *([z3.RealSort()] * (len(a_) + 1)))(*a_)
            if n == 'trunc':      # conversion double -> int as in C++ (towards zero), same term as the translated cast
                v = self.to_real(args[0])
                if self.cur is not None and self.cur.options.get('prune_real'):
                    if not self.feasible(st, v < 0): return z3.ToInt(v)
                    if not self.feasible(st, v >= 0): return -z3.ToInt(-v)
                return z3.If(v >= 0, z3.ToInt(v), -z3.ToInt(-v))
            if n == 'sq': return args[0] * args[0]
            if n == 'cube': return args[0] * args[0] * args[0]
            if n in self.db.specfns:
                return self.specfn(n, args, st)
            if n in st.ghost and isinstance(st.ghost[n], Fun):
                return self.apply_uf(st.ghost[n].uf, args)
            # uninterpreted callback function by name, e.g. F(x)
            return self.apply_uf(n, args)
        raise E2Error('clause expression kind %s' % k)

    def apply_uf(self, name, args):
        ren = getattr(self, 'uf_rename', None)
        if ren and name in ren:
            name, extra = ren[name]
            args = list(args) + list(extra)
        flat = []
        def fl(v):
            if isinstance(v, Rec):
                for fn in sorted(v.f): fl(v.f[fn])
            elif isinstance(v, Seq): flat.append(v.arr); flat.append(z3.ToReal(v.n) if z3.is_int(v.n) else v.n)
            else: flat.append(v)
        if any(isinstance(v, Rec) for v in args):
            for v in args: fl(v)
            args = flat
        a = [self.to_real(v) if not isinstance(v, Seq) else v.arr for v in args]
        sorts = [v.sort() for v in a] + [z3.RealSort()]
        return self.uf(name, *sorts)(*a)

    def specfn(self, n, args, st):
        sf = self.db.specfns[n]
        sorts = []
        a = []
        for (t, pn), v in zip(sf.params, args):
            if t == 'int': sorts.append(z3.IntSort()); a.append(v)
            elif t == 'real': sorts.append(z3.RealSort()); a.append(self.to_real(v))
            elif t == 'seq': sorts.append(v.arr.sort()); a.append(v.arr)
            elif t == 'seq2':
                sorts.append(v.arr.sort()); a.append(v.arr)
                sorts.append(v.lens.sort()); a.append(v.lens)
            else: raise E2Error('spec function parameter type %s' % t)
        rs = {'int': z3.IntSort(), 'real': z3.RealSort(), 'bool': z3.BoolSort()}[sf.rtype]
        ren = getattr(self, 'uf_rename', None)
        tag = ''
        if ren:      # a spec function that mentions a callback symbol is a different function for a different callback
            tag = '@' + ','.join('%s=%s' % (k_, v_[0]) for k_, v_ in sorted(ren.items()))
            for k_, v_ in sorted(ren.items()):
                for x_ in v_[1]: sorts.append(z3.RealSort()); a.append(x_)
        f = self.uf('spec_' + n + tag, *(sorts + [rs]))
        r = f(*a)
        # one unfolding at the call site
        if sf.body is not None and self.depth < getattr(self, 'max_unfold', 5):
            self.depth += 1
            bound = {}
            for (t, pn), v in zip(sf.params, args): bound[pn] = v
            try:
                body = self.sv(sf.body, st, bound)
                body, r2 = self.unify(body, r) if not z3.is_bool(body) else (body, r)
                st.pc.append(r2 == body)
                self.axiom_instances += 1
            finally:
                self.depth -= 1
        return r

    def use_lemma(self, c, st, bound=None):
        lm = self.db.lemmas.get(c.name)
        if lm is None: raise E2Error('unknown lemma %s' % c.name)
        self.lemmas_used.add(c.name)
        if getattr(lm, 'is_axiom', False):
            self.notes.append('definitional axiom %s used (well-definedness: %s)' % (c.name, ' '.join(lm.options.get('justified_by', ['UNJUSTIFIED']))))
        if getattr(c, 'forall', None) is not None:
            return self.use_lemma_forall(c, lm, st, bound)
        args = [self.sv(a, st, bound) for a in c.args]
        if len(args) != len(lm.params): raise E2Error('lemma %s arity' % c.name)
        s2 = st.clone(); s2.env = {}; s2.scope = None; s2.ghost = {}
        for (t, n), a in zip(lm.params, args):
            if t == 'real' and not isinstance(a, Seq): a = self.to_real(a)
            s2.env[n] = a
        cond = self.sv(c.when, st, bound) if getattr(c, 'when', None) is not None else None
        if cond is not None: s2.assume(cond)
        for cl in lm.requires:
            for cj in self.clause_conjuncts(cl.expr):
                for v in self.clause_vals(cj, s2):
                    self.oblige(s2, v, 'lemma.requires', 'use %s: %s' % (c.name, SP.show(cj)))
        for cl in lm.ensures:
            for v in self.clause_vals(cl.expr, s2):
                if cond is None: st.assume(v)
                elif isinstance(v, Quant): st.assume(self._guard(v, cond))
                else: st.assume(z3.Implies(cond, v))

    def use_lemma_forall(self, c, lm, st, bound=None):
        """assume  forall v in [lo,hi): requires(v) ==> ensures(v)  (the lemma itself is proved separately)"""
        var, lox, hix = c.forall
        lo = self.sv(lox, st, bound); hi = self.sv(hix, st, bound)
        frozen = st.clone(); frozen.env = dict(st.env)
        from .solve import contains
        def parts(k):
            b2 = dict(bound or {}); b2[var] = k
            args = [self.sv(a, frozen, b2) for a in c.args]
            s2 = frozen.clone(); s2.env = {}; s2.scope = None; s2.ghost = {}
            for (t, n), a in zip(lm.params, args):
                if t == 'real' and not isinstance(a, Seq): a = self.to_real(a)
                s2.env[n] = a
            pre = []; post = []
            for cl in lm.requires:
                for cj in self.clause_conjuncts(cl.expr):
                    for v in self.clause_vals(cj, s2): pre.append((v, SP.show(cj)))
            for cl in lm.ensures:
                for v in self.clause_vals(cl.expr, s2): post.append(v)
            return pre, post, s2
        # preconditions that do not depend on the bound variable are obligations here, once
        k0 = fresh(var + '!u', z3.IntSort())
        pre0, post0, s20 = parts(k0)
        dep = []
        for n_, (v, txt) in enumerate(pre0):
            d = contains(v.inst(*[z3.Int('q!probe%d' % j) for j in range(len(v.vars))]), k0) if isinstance(v, Quant) else contains(v, k0)
            dep.append(d)
            if not d:
                self.oblige(s20, v, 'lemma.requires', 'use_forall %s: %s' % (c.name, txt))
            elif isinstance(v, Quant):
                raise E2Error('use_forall %s: quantified precondition depends on the bound variable' % c.name)
        def fn(k, dep=dep):
            pre, post, _ = parts(k)
            ante = [v for (v, txt), d in zip(pre, dep) if d]
            cons = [v.as_forall() if isinstance(v, Quant) else v for v in post]
            return z3.Implies(z3.And(*ante) if ante else z3.BoolVal(True), z3.And(*cons))
        st.assume(Quant(var, lo, hi, fn, 'use_forall %s: %s' % (var, c.name)))

    def assume_validity(self, x, st, positive):
        """assume valid (conjunction, quantifiers as Quant) or its negation (quantified conjuncts skolemised)"""
        if positive:
            self.assume_clause(x, st); return
        alts = []
        for c in self.clause_conjuncts(x):
            if c.k == 'forall':
                k = fresh(c.var + '!wit', z3.IntSort())
                lo = self.sv(c.lo, st); hi = self.sv(c.hi, st)
                b = self.sv(c.body, st, {c.var: k})
                alts.append(z3.And(lo <= k, k < hi, z3.Not(b)))
            else:
                alts.append(z3.Not(self.sv(c, st)))
        st.assume(z3.Or(*alts))

    def clause_conjuncts(self, x):
        if x.k == 'bin' and x.op == '&&':
            return self.clause_conjuncts(x.l) + self.clause_conjuncts(x.r)
        return [x]

    def clause_vals(self, x, st, bound=None):
        """evaluate a clause into a list of z3 formulas / Quant objects (top-level conjuncts)"""
        out = []
        st_live = st
        st = st.clone()          # closures below are evaluated lazily: freeze the environment now
        st.env = dict(st_live.env)
        for c in self.clause_conjuncts(x):
            guard = None; body = c
            if c.k == 'bin' and c.op == '==>' and c.r.k == 'forall':
                guard = self.sv(c.l, st, bound); body = c.r
            if body.k == 'forall':
                chain = [body]
                while chain[-1].body.k == 'forall': chain.append(chain[-1].body)
                inner = chain[-1].body
                names = [q.var for q in chain]
                def rangefn(*ks, chain=chain, st=st, bound=bound, names=names):
                    b2 = dict(bound or {}); cs = []
                    for q, k in zip(chain, ks):
                        lo = self.sv(q.lo, st, b2); hi = self.sv(q.hi, st, b2)
                        cs.append(z3.And(lo <= k, k < hi)); b2[q.var] = k
                    return z3.And(*cs) if len(cs) > 1 else cs[0]
                def fn(*ks, inner=inner, st=st, bound=bound, names=names):
                    b2 = dict(bound or {})
                    for n_, k in zip(names, ks): b2[n_] = k
                    s2 = st.clone(); n0 = len(s2.pc)
                    v = self.sv(inner, s2, b2)
                    fn.extras = [h for h in s2.pc[n0:] if not isinstance(h, Quant)]
                    return v
                fn.extras = []
                out.append(Quant.multi(names, rangefn, fn, SP.show(c), guard))
            else:
                out.append(self.sv(c, st_live, bound))
        return out

    def assume_clause(self, x, st, bound=None):
        for v in self.clause_vals(x, st, bound):
            st.assume(v)

    def check_clause(self, cl, st, kind, bound=None, what=''):
        for c in self.clause_conjuncts(cl.expr):
            for v in self.clause_vals(c, st, bound):
                lab = ('[%s] ' % cl.label) if cl.label else ''
                self.oblige(st, v, kind, '%s%s%s' % (lab, what, SP.show(c)))

    # ------------------------------------------------------------ calls
    def bind_args(self, f, e, st):
        """evaluate the arguments of a user call; returns callee env and the caller lvalues of self / ref params"""
        args = list(e.args)
        env = {}; back = []
        if getattr(e, 'method', False):
            obj = args.pop(0)
            env['self'] = self.ev_nocheck(obj, st)
            if not f.is_const: back.append(('self', obj))
        if len(args) != len(f.params):
            raise E2Error('arity mismatch calling %s' % f.qual)
        for (pn, pt, byref), a in zip(f.params, args):
            v = self.ev_nocheck(a, st) if byref else self.ev(a, st)
            if pt == 'double' and not isinstance(v, (Seq, Rec, Fun, Str)): v = self.to_real(v)
            env[pn] = v
            if byref: back.append((pn, a))
        return env, back

    def user_call(self, e, st):
        f = self.func(e.fn)
        sp = self.spec_of(e.fn)
        inline = sp is None or sp.inline or (self.cur is not None and (f.qual in self.cur.inline_callees or f.name in self.cur.inline_callees))
        if sp is None and not (self.cur is not None and (f.qual in self.cur.inline_callees or f.name in self.cur.inline_callees)):
            raise E2Error('callee %s (%s) has neither a contract nor an inline mark' % (f.qual, e.fn))
        if inline:
            return self.inline_call(e, f, sp, st)
        return self.contract_call(e, f, sp, st)

    def contract_call(self, e, f, sp, st, ctor_self=None, pre_bound=None, ghost_sets=None, extra_views=None):
        if pre_bound is not None: env, back = pre_bound
        else: env, back = self.bind_args(f, e, st) if ctor_self is None else ctor_self
        cs = st.clone(); cs.env = dict(env); cs.scope = None; cs.ghost = {}
        for gt, gn in sp.globals:
            if ('::' + gn) not in st.env: st.env['::' + gn] = self.fresh_val(gt, 'glob.' + gn, st)
            cs.env['::' + gn] = st.env['::' + gn]
        for gt, gn in sp.ghosts:
            cs.ghost[gn] = self.fresh_val({'real': 'double', 'double': 'double', 'int': 'int', 'uint': 'uint', 'bool': 'bool', 'seq': 'seq<double>', 'seq2': 'seq<seq<double>>'}.get(gt, gt), 'g.' + gn, cs, constrain=(gt in ('seq', 'seq2')))
            if gn in st.ghost: cs.ghost[gn] = st.ghost[gn]     # ghost arguments are passed by name
            if ghost_sets and gn in ghost_sets[0]: cs.ghost[gn] = ghost_sets[0][gn]
        lam_bind = []
        for p in f.params:
            if p[1] == 'fun' and isinstance(env.get(p[0]), Fun):
                # the callee's contract names its callback by an uninterpreted function; the actual argument must be the
                # caller's callback with the same name, otherwise the clauses would talk about a different function
                cb = sp.callbacks.get(p[0])
                want = cb['uf'] if cb else None
                act = env[p[0]]
                mine = None
                if self.cur is not None:
                    for cn, c2 in self.cur.callbacks.items():
                        mine = c2['uf'] if mine is None else mine
                if act.lam is not None and (want is not None or sp.options.get('pure')):
                    # a lambda is passed: it must have a contract of its own (keyed lambda:<function>:<ordinal>); the callee's
                    # clauses are instantiated with an uninterpreted function that stands for this lambda with these captures
                    lam_bind.append((p[0], act, cb))
                    continue
                if want is not None and (mine is not None and mine != want):
                    raise E2Error('call %s: the contract names its callback %s but a different function is passed (callback renaming is not supported)' % (f.qual, want))
        gstate = [gn for gt, gn in sp.ghost_state]
        for gn in gstate:
            if gn not in st.env: raise E2Error('call %s: ghost state %s is not declared in the caller' % (f.qual, gn))
            cs.env[gn] = st.env[gn]
        who = 'call %s: ' % f.qual
        saved_rename = getattr(self, 'uf_rename', None)
        lam_info = []
        if lam_bind:
            self.uf_rename = dict(saved_rename or {})
            for pname, act, cb in lam_bind:
                lname, extra, lsp, lf, caps = self.lambda_identity(act, st)
                env[pname] = Fun(lname, lam=act.lam); env[pname].extra = extra; cs.env[pname] = env[pname]
                if cb: self.uf_rename[cb['uf']] = (lname, extra)
                lam_info.append((pname, act, cb, lname, extra, lsp, lf, caps))
        for cl in sp.requires:
            if cl.engines and 'E2' not in cl.engines: continue
            self.check_clause(cl, cs, 'call.requires', what=who)
        for (pname, act, cb, lname, extra, lsp, lf, caps) in lam_info:
            # whenever the callee calls its callback (within the callback's precondition) the lambda's own precondition holds
            ls = cs.clone(); ls.env = dict(cs.env); ls.ghost = dict(cs.ghost)
            targs = [self.fresh_val(pt, 'cbarg.' + pn, ls) for (pn, pt, br) in lf.params]
            if cb:
                bound = {}
                for an, av in zip(cb['args'], targs): bound[an] = av
                for cl in cb['requires']: self.assume_clause(cl.expr, ls, bound)
                if cb['ensures']: raise E2Error('call %s: the callee assumes a postcondition of its callback; passing a lambda there is not supported' % f.qual)
            le = st.clone(); le.pc = ls.pc; le.pc_int = ls.pc_int; le.env = {}; le.scope = None; le.ghost = dict(st.ghost)
            for (pn, pt, br), tv in zip(lf.params, targs): le.env[pn] = tv
            for nm, v in caps.items(): le.env['$' + nm] = v
            keep_ = self.uf_rename; self.uf_rename = self.lambda_rename(lsp, caps)
            try:
                for cl in lsp.requires:
                    self.check_clause(cl, le, 'lambda.requires', what=who + 'the lambda passed as %s is called within its precondition: ' % pname)
            finally:
                self.uf_rename = keep_
        # a caller whose contract documents give-up exits (`option may_exit`: partial correctness) may also end inside a callee
        strict_ = self.mode != 'reject' and not (self.cur is not None and self.cur.options.get('may_exit'))
        if sp.valid_iff is not None:
            if strict_:
                for c in self.clause_conjuncts(sp.valid_iff.expr):
                    for v in self.clause_vals(c, cs):
                        self.oblige(cs, v, 'call.noexit', who + 'callee does not terminate the process: ' + SP.show(c))
            self.assume_clause(sp.valid_iff.expr, cs)
        elif sp.exits_iff is not None:
            V = self.sv(sp.exits_iff.expr, cs)
            if strict_:
                self.oblige(cs, z3.Not(V), 'call.noexit', who + 'callee does not terminate the process: !(%s)' % sp.exits_iff.text)
            cs.assume(z3.Not(V))
        if self.cur is sp and sp.decreases is not None and self.entry_dec is not None:
            d = self.sv(sp.decreases.expr, cs)
            step_ = (d < self.entry_dec) if (z3.is_int(d) and z3.is_int(self.entry_dec)) else (self.to_real(d) <= self.to_real(self.entry_dec) - 1)
            self.oblige(cs, z3.And(step_, self.entry_dec >= 0), 'decreases', who + 'recursion measure %s decreases and is bounded below' % sp.decreases.text)
        cs.old = dict(cs.env)
        # havoc the frame
        assigns = sp.assigns
        if assigns is None:
            if f.is_const or (not f.self_rec and not any(p[2] for p in f.params)) or ctor_self is not None: assigns = []
            else: raise E2Error('contract of %s needs an assigns clause' % f.qual)
        for tgt in assigns:
            self.havoc_target(tgt, cs, f)
        if ctor_self is not None:
            cs.env['self'] = self.fresh_val('rec:' + f.self_rec, 'new.' + f.self_rec, cs)
        res = None
        if f.ret != 'void':
            res = self.fresh_val(f.ret, 'ret.' + f.name, cs)
            cs.env['result'] = res
        if sp.options.get('pure') and res is not None and not isinstance(res, (Seq, Rec)):
            self.check_pure(f)
            sc = []; strtags = []
            for (pn, pt, br) in f.params:
                v = env[pn]
                if isinstance(v, Fun): sc.append(z3.RealVal(abs(hash(v.uf)) % 1000003) if False else None); continue
                if isinstance(v, Str): strtags.append('s[%s]' % (v.v if v.v is not None else v.sym)); sc.append(None); continue
                if isinstance(v, (Seq, Rec)): raise E2Error('pure summary of %s: non-scalar parameter %s' % (f.qual, pn))
                sc.append(self.to_real(v) if not z3.is_bool(v) else z3.If(v, z3.RealVal(1), z3.RealVal(0)))
            funs = [env[pn].uf for (pn, pt, br) in f.params if isinstance(env[pn], Fun)]
            for (pn, pt, br) in f.params:
                if isinstance(env[pn], Fun) and getattr(env[pn], 'extra', None): sc += list(env[pn].extra)
            cbn = '_'.join(((self.cur.callbacks.get(pn, {}) or {}).get('uf') or u) for u, pn in zip(funs, [p[0] for p in f.params if isinstance(env[p[0]], Fun)])) if False else '_'.join(funs)
            args = [a for a in sc if a is not None]
            u = self.uf('pure_%s_%s' % (f.name, cbn + ''.join(strtags)), *([z3.RealSort()] * len(args) + [res.sort()]))
            cs.assume(res == u(*args))
        n_pc0 = len(cs.pc)
        keep_owner = getattr(self, 'clause_owner', None)
        self.clause_owner = sp.key.split('~')[0]
        try:
            for cl in sp.ensures:
                if cl.engines and 'E2' not in cl.engines: continue
                self.assume_clause(cl.expr, cs)
        finally:
            self.clause_owner = keep_owner
        # postconditions that mention ghost parameters hold for every value of them (the callee's proof treats them as
        # arbitrary): a ghost call may ask for several instances
        for gs in (ghost_sets or [])[1:]:
            keep_g = dict(cs.ghost)
            for gn, gv in gs.items(): cs.ghost[gn] = gv
            for cl in sp.ensures:
                if cl.engines and 'E2' not in cl.engines: continue
                if set(SP.names_in(cl.expr)) & set(gs): self.assume_clause(cl.expr, cs)
            cs.ghost = keep_g
        # further views of the same function (each verified as a goal of its own) describe the same call
        for sp2, gsets2 in (extra_views or []):
            for gs in (gsets2 or [{}]):
                keep_g = dict(cs.ghost)
                for gt, gn in sp2.ghosts:
                    if gn not in cs.ghost: cs.ghost[gn] = self.fresh_val({'real': 'double', 'int': 'int'}.get(gt, gt), 'g.' + gn, cs, constrain=False)
                for gn, gv in gs.items(): cs.ghost[gn] = gv
                old_env = cs.env; pre = st.clone(); pre.env = dict(cs.old); pre.ghost = cs.ghost; pre.scope = None
                for cl in sp2.requires:
                    self.check_clause(cl, pre, 'call.requires', what=who + '(view %s) ' % sp2.key.split('~')[-1])
                for cl in sp2.ensures:
                    if cl.engines and 'E2' not in cl.engines: continue
                    self.assume_clause(cl.expr, cs)
                cs.ghost = keep_g
        for (pname, act, cb, lname, extra, lsp, lf, caps) in lam_info:
            # what the lambda's contract says about its values, at every application that the callee's postconditions mention
            apps = {}
            for h in cs.pc[n_pc0:]:
                if isinstance(h, Quant): continue
                for sub in _subterms(h):
                    if z3.is_app(sub) and sub.decl().name() == lname and sub.num_args() == len(lf.params) + len(extra): apps[sub.get_id()] = sub
            for app in apps.values():
                le = st.clone(); le.pc = cs.pc; le.pc_int = cs.pc_int; le.env = {}; le.scope = None; le.ghost = dict(st.ghost)
                for i_, (pn, pt, br) in enumerate(lf.params): le.env[pn] = app.arg(i_)
                for nm, v in caps.items(): le.env['$' + nm] = v
                le.env['result'] = app
                keep_ = self.uf_rename; self.uf_rename = self.lambda_rename(lsp, caps)
                try:
                    pre = [v for cl in lsp.requires for v in self.clause_vals(cl.expr, le) if not isinstance(v, Quant)]
                    for cl in lsp.ensures:
                        for v in self.clause_vals(cl.expr, le):
                            if isinstance(v, Quant): continue
                            cs.assume(z3.Implies(z3.And(*pre), v) if pre else v)
                finally:
                    self.uf_rename = keep_
        self.uf_rename = saved_rename
        for gn in gstate: st.env[gn] = cs.env[gn]
        for gt, gn in sp.globals: st.env['::' + gn] = cs.env['::' + gn]
        st.pc = cs.pc; st.pc_int = cs.pc_int
        for nm, lv in back:
            if cs.env[nm] is not env[nm]:
                self.assign_nocheck(lv, cs.env[nm], st)
        if self.cur is sp and pre_bound is None:
            # recursive call: the callee is this very function, so it shares (and may have changed) the function-local statics
            for sn in sorted(getattr(self, 'static_locals', set())):
                if sn not in st.env: continue
                st.env[sn] = self.fresh_val(self.vartypes.get(sn), 'static.' + sn, st)
                for cl in sp.static_invs.get(sn.split('__')[0], []): self.assume_clause(cl.expr, st)
        if ctor_self is not None:
            return cs.env.get('self')
        return res

    def fun_name(self, v):
        """the uninterpreted function a function value stands for in the current contract (callback parameters by their uf name)"""
        cbk = self.cur.callbacks.get(v.uf) if self.cur is not None else None
        return cbk['uf'] if cbk else v.uf

    def lambda_rename(self, lsp, caps):
        """while clauses of a lambda's contract are evaluated, its callback names denote the functions it captured"""
        ren = {}
        for cn, cbk in lsp.callbacks.items():
            v = caps.get(cn)
            if isinstance(v, Fun): ren[cbk['uf']] = (self.fun_name(v), list(getattr(v, 'extra', None) or []))
        return ren

    def lambda_identity(self, act, st):
        """name of the uninterpreted function that stands for a lambda value: its stable key plus the names of the callbacks it
        captured; the scalars it captured become extra arguments.  Needs a contract for the lambda's call operator."""
        op, caps = act.lam
        alias = None
        for u in self.units:
            for a_, m_ in getattr(u, 'aliases', {}).items():
                if m_ == op: alias = a_
        if alias is None or alias not in self.db.funcs:
            raise E2Error('a lambda (%s) is passed to a function under contract but has no contract of its own' % (alias or op))
        lsp = self.db.funcs[alias]; lf = self.func(op)
        parts = [alias.split(':', 1)[1]]; extra = []
        for nm in sorted(caps):
            v = caps[nm]
            if isinstance(v, Fun):
                parts.append(self.fun_name(v))
                if getattr(v, 'extra', None): extra += list(v.extra)
            elif isinstance(v, Str): parts.append('s[%s]' % (v.v if v.v is not None else v.sym))
            elif isinstance(v, (Seq, Rec, PySeq, Iter)): raise E2Error('lambda %s captures a non-scalar (%s)' % (alias, nm))
            elif v is None: continue
            else: extra.append(self.to_real(v) if not z3.is_bool(v) else z3.If(v, z3.RealVal(1), z3.RealVal(0)))
        return 'lam<' + '|'.join(parts) + '>', extra, lsp, lf, caps

    def check_pure(self, f):
        """syntactic purity: no namespace-scope or static variable is read or written (R16)"""
        if f.rules.get('R16'):
            raise E2Error('%s is declared pure but touches namespace-scope/static variables' % f.qual)
        for s_ in walk_stmts(f.body):
            if s_.k == 'decl' and getattr(s_, 'static', False):
                raise E2Error('%s is declared pure but has a static local' % f.qual)

    def assign_nocheck(self, lv, val, st):
        n = len(self.obligations)
        self.assign(lv, val, st)
        del self.obligations[n:]

    def havoc_target(self, x, cs, f):
        # path of names/fields
        path = []
        y = x
        while y.k == 'field':
            path.append(y.name); y = y.base
        if y.k != 'name': raise E2Error('assigns target %s' % SP.show(x))
        path.append(y.name); path.reverse()
        root = path[0]
        if root not in cs.env and ('::' + root) in cs.env: root = '::' + root
        if root not in cs.env: raise E2Error('assigns target %s does not resolve' % SP.show(x))
        def rec(v, p, nm):
            if not p:
                return self.fresh_like(v, nm, cs)
            if not isinstance(v, Rec) or p[0] not in v.f: raise E2Error('assigns target %s: no field %s' % (SP.show(x), p[0]))
            nf = dict(v.f); nf[p[0]] = rec(v.f[p[0]], p[1:], nm + '.' + p[0])
            return Rec(v.name, nf)
        cs.env[root] = rec(cs.env[root], path[1:], 'hv.' + root)

    def fresh_like(self, v, nm, st, types=None):
        if isinstance(v, Seq):
            t = 'seq<%s>' % v.et
            return self.fresh_val(t, nm, st)
        if isinstance(v, Rec):
            if v.name.startswith('pair<'): return self.fresh_val(v.name, nm, st)
            return self.fresh_val('rec:' + v.name, nm, st)
        if isinstance(v, (Fun, Str)): return v
        if z3.is_bool(v): return fresh(nm, z3.BoolSort())
        if z3.is_int(v): return fresh(nm, z3.IntSort())
        return fresh(nm, z3.RealSort())

    def inline_call(self, e, f, sp, st, ctor_self=None, want_lvalue=False, raw_paths=False):
        env, back = self.bind_args(f, e, st) if ctor_self is None else ctor_self
        sub = st.clone(); sub.env = dict(env); sub.scope = None
        for k, v in st.env.items():
            if k.startswith('::'): sub.env[k] = v
        saved = (self.cur, self.prefix, self.curf)
        self.cur = sp if sp is not None else SP.FuncSpec(f.mangled)
        self.curf = f
        self.prefix = saved[1] + f.name + '>'
        self.depth_inline = getattr(self, 'depth_inline', 0) + 1
        if self.depth_inline > 12: raise E2Error('inline depth exceeded at %s' % f.qual)
        try:
            paths = self.exec_block(f.body, sub)
        finally:
            self.cur, self.prefix, self.curf = saved
            self.depth_inline -= 1
        n0 = len(st.pc)
        good = []
        for p, status, rv in paths:
            if status == 'exit':
                if self.mode != 'reject' and not (self.cur is not None and self.cur.options.get('may_exit')) and not (sp is not None and sp.options.get('may_exit')):
                    self.oblige(p, z3.BoolVal(False), 'call.noexit', 'call %s: callee does not terminate the process' % f.qual)
                continue
            good.append((p, rv))
        if raw_paths:
            return good
        if not good:
            st.assume(z3.BoolVal(False))
            return self.fresh_val(f.ret, 'dead', st) if f.ret not in ('void',) and not f.ret_ref else None
        # merge
        if len(good) == 1:
            p, rv = good[0]
            st.pc = p.pc; st.pc_int = p.pc_int
            fin = p.env; res = rv
        else:
            conds = []
            for p, rv in good:
                ex = [h for h in p.pc[n0:] if not isinstance(h, Quant)]
                qs = [h for h in p.pc[n0:] if isinstance(h, Quant)]
                b = z3.And(*ex) if ex else z3.BoolVal(True)
                conds.append((b, qs))
            st.assume(z3.Or(*[b for b, _ in conds]))
            for b, qs in conds:
                for q in qs: st.assume(self._guard(q, b))
            fin = {}
            keys = set(good[0][0].env)
            for k in keys:
                v = good[-1][0].env.get(k)
                for (p, _), (b, _) in zip(reversed(good[:-1]), reversed(conds[:-1])):
                    pv = p.env.get(k)
                    if pv is None or v is None: v = None; break
                    v = pv if pv is v else self.ite_val(b, pv, v)
                fin[k] = v
            if f.ret_ref:
                res = good[0][1]
                for p, rv in good[1:]:
                    if IR.pp_expr(rv) != IR.pp_expr(res): raise E2Error('reference-returning %s returns different lvalues' % f.qual)
            elif f.ret == 'void':
                res = None
            else:
                res = good[-1][1]
                for (p, rv), (b, _) in zip(reversed(good[:-1]), reversed(conds[:-1])):
                    res = self.ite_val(b, rv, res)
        for k, v in fin.items():
            if k.startswith('::') and v is not None: st.env[k] = v
        for nm, lv in back:
            if fin.get(nm) is not None and fin[nm] is not env[nm]:
                self.assign_nocheck(lv, fin[nm], st)
        if ctor_self is not None:
            return fin.get('self')
        if f.ret_ref:
            # translate the returned lvalue into the caller's terms
            m = {}
            args = list(e.args)
            if 'self' in env: m['self'] = args.pop(0)
            for (pn, pt, br), a in zip(f.params, args): m[pn] = a
            lv = subst_ir(res, m)
            return lv if want_lvalue else self.ev_quiet(lv, st)
        return res

    def ev_quiet(self, e, st):
        n = len(self.obligations)
        v = self.ev(e, st)
        del self.obligations[n:]
        return v

    def ref_call(self, e, st):
        f = self.func(e.fn)
        sp = self.spec_of(e.fn)
        return self.inline_call(e, f, sp, st, want_lvalue=True)

    def e_recctor(self, e, st):
        t = e.rec
        if t.startswith('pair<'):
            vals = [self.ev(a, st) for a in e.args]
            if len(vals) == 2: return Rec(t, {'first': vals[0], 'second': vals[1]})
            return self.fresh_val(t, 'pair', st)
        rn = t[4:]
        if e.ctor is None:
            if e.default or not e.args:
                # implicit default constructor: members default-initialised
                return Rec(rn, {fn: self.default_val(ft, st) for fn, ft in self.records.fields(rn)})
            raise E2Error('constructor of %s not resolved' % rn)
        f = self.func(e.ctor)
        sp = self.spec_of(e.ctor)
        st0 = State()
        selfv = Rec(rn, {fn: self.default_val(ft, st) if IR.is_seq(ft) or ft.startswith('rec:') else self.fresh_val(ft, 'uninit.' + fn, st) for fn, ft in self.records.fields(rn)})
        env = {'self': selfv}
        for (pn, pt, br), a in zip(f.params, e.args):
            v = self.ev(a, st)
            if pt == 'double' and not isinstance(v, (Seq, Rec, Fun, Str)): v = self.to_real(v)
            env[pn] = v
        if sp is not None and not sp.inline and not (self.cur and (f.qual in self.cur.inline_callees)):
            return self.contract_call(e, f, sp, st, ctor_self=(env, []))
        if sp is None and not (self.cur and (f.qual in self.cur.inline_callees or f.name in self.cur.inline_callees)):
            raise E2Error('constructor %s has neither a contract nor an inline mark' % f.qual)
        return self.inline_call(e, f, sp, st, ctor_self=(env, []))

    def callback(self, e, st):
        fv = self.ev(e.fn, st)
        if not isinstance(fv, Fun): raise E2Error('callback through non-function value')
        args = [self.ev(a, st) for a in e.args]
        pname = e.fn.name if e.fn.k == 'var' else None
        cb = None
        cur = self.cur
        if cur is not None and pname is not None:
            cb = cur.callbacks.get(pname.lstrip('$'))
        if fv.lam is not None:
            return self.call_lambda(fv, args, st)
        ufname = cb['uf'] if cb else fv.uf
        res = self.apply_uf(ufname, args)
        if cb:
            bound = {}
            for an, av in zip(cb['args'], args): bound[an] = av
            for cl in cb['requires']:
                for c in self.clause_conjuncts(cl.expr):
                    self.oblige(st, self.sv(c, st, bound), 'callback.requires', 'callback %s: %s' % (pname, SP.show(c)))
            bound['result'] = res
            for cl in cb['ensures']:
                st.assume(self.sv(cl.expr, st, bound))
            if 'evals' in st.env and self.cur is not None and any(gn == 'evals' for gt, gn in self.cur.ghost_state):
                st.env['evals'] = st.env['evals'] + 1
        return res

    def e_lambda(self, e, st):
        caps = {}
        for nm, ce in zip(e.fields, e.captures):
            caps[nm] = self.ev(ce, st)
        return Fun('lam', lam=(e.op, caps))

    def call_lambda(self, fv, args, st):
        op, caps = fv.lam
        f = self.func(op)
        env = {}
        for (pn, pt, br), v in zip(f.params, args): env[pn] = v
        for nm, v in caps.items():
            env['$' + nm] = v
            if nm == 'this': env['self'] = st.env.get('self', v)      # [this] is a pointer: the lambda sees the object's current state
        fake = IR.E('call', f.ret, fn=op, kind='user', args=[], name='lambda', method=False, ret_ref=False)
        return self.inline_call(fake, f, self.cur, st, ctor_self=None) if False else self._inline_env(f, env, st)

    def _inline_env(self, f, env, st):
        sub = st.clone(); sub.env = dict(env); sub.scope = None
        saved = (self.prefix, self.curf)
        self.prefix = saved[0] + 'lambda>'; self.curf = f
        try:
            paths = self.exec_block(f.body, sub)
        finally:
            self.prefix, self.curf = saved
        good = [(p, rv) for p, s, rv in paths if s != 'exit']
        if len(good) != 1: raise E2Error('lambda with %d return paths' % len(good))
        p, rv = good[0]
        st.pc = p.pc; st.pc_int = p.pc_int
        return rv


def walk_stmts(ss):
    for s_ in ss:
        yield s_
        for attr in ('then', 'els', 'body', 'step'):
            v = getattr(s_, attr, None)
            if isinstance(v, list):
                for x in walk_stmts(v): yield x


def replace_node(e, target, repl):
    if e is target: return repl
    if not isinstance(e, IR.E): return e
    n = IR.E(e.k, e.t)
    for k, v in e.__dict__.items():
        if k in ('k', 't'): continue
        if isinstance(v, IR.E): n.__dict__[k] = replace_node(v, target, repl)
        elif isinstance(v, list): n.__dict__[k] = [replace_node(a, target, repl) for a in v]
        else: n.__dict__[k] = v
    return n


def subst_ir(e, m):
    if not isinstance(e, IR.E): return e
    if e.k == 'var' and e.name in m: return m[e.name]
    n = IR.E(e.k, e.t)
    for k, v in e.__dict__.items():
        if k in ('k', 't'): continue
        if isinstance(v, IR.E): n.__dict__[k] = subst_ir(v, m)
        elif isinstance(v, list): n.__dict__[k] = [subst_ir(a, m) for a in v]
        else: n.__dict__[k] = v
    return n


MUTATING = {'seq.push_back', 'seq.clear', 'seq.resize', 'seq.assign', 'seq.erase', 'seq.insert', 'seq.pop_back', 'seq.reserve'}


class Verifier(Engine):
    # ------------------------------------------------------------ statements
    def exec_block(self, stmts, st):
        paths = [(st, 'normal', None)]
        for s in stmts:
            new = []
            for p, status, rv in paths:
                if status != 'normal':
                    new.append((p, status, rv)); continue
                new += self.exec_stmt(s, p)
            paths = new
            if len(paths) > 4000: raise E2Error('path explosion in %s' % self.prefix)
        return paths

    def feasible(self, st, c):
        c2 = z3.simplify(c)
        if z3.is_false(c2): return False
        if z3.is_true(c2): return True
        if _int_only(c2):
            s = z3.Solver(); s.set('timeout', 300)
            for h in st.pc_int: s.add(h)
            s.add(c2)
            if s.check() == z3.unsat:
                self.stats['pruned'] += 1
                return False
        elif self.cur is not None and self.cur.options.get('prune_real'):
            # option prune_real: branch conditions over reals are checked against the (quantifier-free part of the) path condition too
            s = z3.Solver(); s.set('timeout', 400)
            for h in st.pc:
                if not isinstance(h, Quant): s.add(h)
            s.add(c2)
            if s.check() == z3.unsat:
                self.stats['pruned'] += 1
                return False
        return True

    def find_split_call(self, e):
        names = (self.cur.options.get('split_calls') or '').split() if self.cur is not None else []
        if not names or not isinstance(e, IR.E): return None
        if e.k == 'call' and e.kind == 'user' and getattr(e, 'name', None) in names and not any(self.find_split_call(a) for a in e.args):
            return e
        for v in e.__dict__.values():
            if isinstance(v, IR.E) and v.k in IR.EXPR_KINDS:
                r = self.find_split_call(v)
                if r is not None: return r
            elif isinstance(v, list):
                for a in v:
                    if isinstance(a, IR.E) and a.k in IR.EXPR_KINDS:
                        r = self.find_split_call(a)
                        if r is not None: return r
        return None

    def exec_stmt(self, s, st):
        k = s.k
        if k in ('decl', 'assign', 'return') and self.cur is not None and self.cur.options.get('split_calls'):
            ex = s.init if k == 'decl' else (s.rhs if k == 'assign' else s.e)
            c = self.find_split_call(ex) if ex is not None else None
            if c is not None:
                # the callee's paths become caller paths (keeps if-then-else terms out of the queries)
                f = self.func(c.fn)
                paths = self.inline_call(c, f, self.spec_of(c.fn), st.clone(), raw_paths=True)
                out = []
                self._splitn = getattr(self, '_splitn', 0)
                for p, rv in paths:
                    self._splitn += 1
                    nm = '$split%d' % self._splitn
                    b = st.clone(); b.pc = list(p.pc); b.pc_int = list(p.pc_int)
                    b.env[nm] = rv
                    var = IR.E('var', c.t, name=nm)
                    s2 = IR.E(s.k, getattr(s, 't', None))
                    s2.__dict__.update(s.__dict__)
                    if k == 'decl': s2.init = replace_node(s.init, c, var)
                    elif k == 'assign': s2.rhs = replace_node(s.rhs, c, var)
                    else: s2.e = replace_node(s.e, c, var)
                    out += self.exec_stmt(s2, b)
                return out
        if k == 'decl' and s.init is not None and s.init.k == 'cond' and s.t in ('double',) + INTS and self.cur is not None and not self.cur.options.get('no_cond_split'):
            # v = c ? a : b  is executed as an if statement (keeps ite terms out of the nonlinear queries)
            self.vartypes[s.name] = s.t
            c = self.ev(s.init.c, st)
            out = []
            for cond, e in ((c, s.init.a), (z3.Not(c), s.init.b)):
                if self.feasible(st, cond):
                    b = st.clone(); b.assume(cond)
                    v = self.ev(e, b)
                    if s.t == 'double': v = self.to_real(v)
                    b.env[s.name] = v
                    out.append((b, 'normal', None))
            return out
        if k == 'decl':
            self.vartypes[s.name] = s.t
            if s.init is not None:
                v = self.ev(s.init, st)
                if s.t == 'double' and not isinstance(v, (Seq, Rec, Fun, Str)) and v is not None: v = self.to_real(v)
            elif IR.is_seq(s.t): v = self.default_val(s.t, st)
            elif s.t.startswith('rec:'):
                v = self.e_recctor(IR.E('recctor', s.t, rec=s.t, args=[], ctor=self.default_ctor(s.t[4:]), default=True), st)
            else: v = self.fresh_val(s.t, 'uninit.' + s.name, st)
            if getattr(s, 'static', False):
                # a function-local static holds whatever earlier calls left in it: arbitrary on entry, constrained only by the
                # invariant the contract declares for it (which its initialiser must establish and every return must keep)
                key = '::static.' + s.name
                invs = (self.cur.static_invs.get(s.name.split('__')[0], []) if self.cur is not None else [])
                if key not in st.env:
                    if invs:
                        i0 = st.clone(); i0.env = dict(st.env); i0.env[s.name] = v
                        for cl in invs: self.check_clause(cl, i0, 'static.%s.initialiser' % s.name, what='initial value satisfies the invariant: ')
                    st.env[key] = self.fresh_val(s.t, 'static.' + s.name, st)
                    st.env[s.name] = st.env[key]
                    for cl in invs: self.assume_clause(cl.expr, st)
                    self.static_locals = getattr(self, 'static_locals', set()); self.static_locals.add(s.name)
                v = st.env[s.name] if s.name in st.env else st.env[key]
            st.env[s.name] = v
            if self.cur is not None and getattr(self.cur, 'uses_after', None):
                for u in self.cur.uses_after.get(s.name.split('__')[0], []):
                    self.use_lemma(u, st)
            return [(st, 'normal', None)]
        if k == 'assign':
            v = self.ev(s.rhs, st)
            if s.lhs.t == 'double' and not isinstance(v, (Seq, Rec, Fun, Str)): v = self.to_real(v)
            self.assign(s.lhs, v, st)
            return [(st, 'normal', None)]
        if k == 'if':
            c = self.ev(s.cond, st)
            out = []
            if self.feasible(st, c):
                a = st.clone(); a.assume(c)
                out += self.exec_block(s.then, a)
            if self.feasible(st, z3.Not(c)):
                b = st.clone(); b.assume(z3.Not(c))
                out += self.exec_block(s.els, b)
            self.stats['paths'] += max(0, len(out) - 1)
            return out
        if k == 'block': return self.exec_block(s.body, st)
        if k == 'loop': return self.exec_loop(s, st)
        if k == 'return':
            if s.e is None: return [(st, 'return', None)]
            if self.curf.ret_ref: return [(st, 'return', s.e)]
            v = self.ev(s.e, st)
            if self.curf.ret == 'double' and not isinstance(v, (Seq, Rec)): v = self.to_real(v)
            return [(st, 'return', v)]
        if k == 'break': return [(st, 'break', None)]
        if k == 'continue': return [(st, 'continue', None)]
        if k == 'exit':
            if not st.env.get('$diag'):
                self.static_failures.append('%sexit without a preceding non-empty diagnostic' % self.prefix)
            self.exit_sites += 1
            return [(st, 'exit', None)]
        if k == 'output':
            if s.non_empty: st.env['$diag'] = True
            return [(st, 'normal', None)]
        if k == 'callstmt':
            self.call_stmt(s.call, st)
            return [(st, 'normal', None)]
        raise E2Error('statement kind %s' % k)

    def default_ctor(self, rn):
        for u in self.units:
            for m, d in u.funcs.items():
                if d.get('kind') == 'CXXConstructorDecl' and d.get('name') == rn and not [p for p in d.get('inner', []) if p.get('kind') == 'ParmVarDecl']:
                    return m
        return None

    def call_stmt(self, c, st):
        if c.kind == 'prim' and c.fn in MUTATING:
            tgt = c.args[0]
            b = self.ev_nocheck(tgt, st)
            fn = c.fn
            if fn == 'seq.push_back' and isinstance(b, PySeq):
                v = self.ev(c.args[1], st)
                nb = PySeq(b.et, b.items + [v])
            elif fn == 'seq.push_back':
                v = self.ev(c.args[1], st)
                if isinstance(b.arr, dict):
                    if not isinstance(v, Rec): raise E2Error('push_back of a non-record into a sequence of records')
                    nb = Seq(b.et, {fn_: z3.Store(a_, b.n, (self.to_real(v.f[fn_]) if a_.sort().range().kind() == z3.Z3_REAL_SORT else v.f[fn_])) for fn_, a_ in b.arr.items()}, b.n + 1)
                elif isinstance(v, Seq):
                    nb = Seq(b.et, z3.Store(b.arr, b.n, v.arr), b.n + 1, z3.Store(b.lens, b.n, v.n))
                elif b.arr is None:
                    nb = Seq(b.et, None, b.n + 1)
                else:
                    if b.et == 'double': v = self.to_real(v)
                    nb = Seq(b.et, z3.Store(b.arr, b.n, v), b.n + 1, b.lens)
            elif fn == 'seq.clear':
                nb = Seq(b.et, b.arr, z3.IntVal(0), b.lens)
            elif fn == 'seq.pop_back':
                self.oblige(st, b.n > 0, 'bounds', 'pop_back on a non-empty sequence')
                nb = Seq(b.et, b.arr, b.n - 1, b.lens)
            elif fn in ('seq.resize', 'seq.assign'):
                n = self.ev(c.args[1], st)
                self.oblige(st, n >= 0, 'bounds', 'new size is non-negative')
                if fn == 'seq.assign' or len(c.args) > 2:
                    v = self.ev(c.args[2], st)
                else:
                    v = self.default_val(b.et, st)
                if isinstance(v, Seq):
                    if fn == 'seq.assign':
                        nb = Seq(b.et, z3.K(z3.IntSort(), v.arr), n, z3.K(z3.IntSort(), v.n))
                    else:
                        nb = self.fresh_val('seq<%s>' % b.et, 'resized', st)
                        st.assume(nb.n == n)
                        st.assume(Quant('k', z3.IntVal(0), n, (lambda k, nb=nb, b=b, v=v: z3.And(z3.Select(nb.lens, k) == z3.If(k < b.n, z3.Select(b.lens, k), v.n))), 'resize lens'))
                        st.assume(Quant('k', z3.IntVal(0), z3.If(n < b.n, n, b.n), (lambda k, nb=nb, b=b: z3.Select(nb.arr, k) == z3.Select(b.arr, k)), 'resize keeps'))
                elif fn == 'seq.assign':
                    if b.et == 'double': v = self.to_real(v)
                    nb = Seq(b.et, z3.K(z3.IntSort(), v), n)
                else:
                    if b.et == 'double': v = self.to_real(v)
                    nb = self.fresh_val('seq<%s>' % b.et, 'resized', st)
                    st.assume(nb.n == n)
                    st.assume(Quant('k', z3.IntVal(0), n, (lambda k, nb=nb, b=b, v=v: z3.Select(nb.arr, k) == z3.If(k < b.n, z3.Select(b.arr, k), v)), 'resize'))
            elif fn == 'seq.erase' and len(c.args) == 2:
                s1, pos, _ = self.iter_range(c.args[1], c.args[1], st)
                self.oblige(st, z3.And(pos >= 0, pos < b.n), 'bounds', 'erase position within the sequence')
                nb = self.fresh_val('seq<%s>' % b.et, 'erased', st)
                st.assume(nb.n == b.n - 1)
                if b.lens is not None:
                    st.assume(Quant('k', z3.IntVal(0), b.n - 1, (lambda k, nb=nb, b=b, pos=pos: z3.And(z3.Select(nb.arr, k) == z3.Select(b.arr, z3.If(k < pos, k, k + 1)), z3.Select(nb.lens, k) == z3.Select(b.lens, z3.If(k < pos, k, k + 1)))), 'erase'))
                else:
                    st.assume(Quant('k', z3.IntVal(0), b.n - 1, (lambda k, nb=nb, b=b, pos=pos: z3.Select(nb.arr, k) == z3.Select(b.arr, z3.If(k < pos, k, k + 1))), 'erase'))
            elif fn == 'seq.insert' and len(c.args) == 4:
                pos = self.ev(c.args[1], st)
                if not isinstance(pos, Iter) or IR.pp_expr(pos.base) != IR.pp_expr(tgt):
                    raise E2Error('insert position is not an iterator of the target')
                self.oblige(st, pos.off == b.n, 'model', 'vector::insert is modelled for insertion at end() only')
                src, lo, hi = self.iter_range(c.args[2], c.args[3], st)
                self.oblige(st, z3.And(0 <= lo, lo <= hi, hi <= src.n), 'bounds', 'inserted range lies within its sequence')
                if b.lens is not None: raise E2Error('insert into nested sequence')
                nb = self.fresh_val('seq<%s>' % b.et, 'inserted', st)
                st.assume(nb.n == b.n + (hi - lo))
                st.assume(Quant('k', z3.IntVal(0), b.n, (lambda k, nb=nb, b=b: z3.Select(nb.arr, k) == z3.Select(b.arr, k)), 'insert keeps the old elements'))
                st.assume(Quant('k', z3.IntVal(0), hi - lo, (lambda k, nb=nb, b=b, src=src, lo=lo: z3.Select(nb.arr, b.n + k) == z3.Select(src.arr, lo + k)), 'insert appends the range'))
            elif fn == 'seq.reserve':
                nb = b
            else:
                raise E2Error('sequence operation %s (%d args)' % (fn, len(c.args)))
            self.assign_nocheck(tgt, nb, st)
            return
        if c.kind == 'prim' and c.fn == 'std::nth_element' and len(c.args) == 3:
            # std::nth_element(first, nth, last) by its contract (C++ standard, trusted A3), for the whole sequence only: afterwards the
            # element at nth is not below any element before it and not above any element after it, and every element is one of the
            # elements before the call (the consequence of "a permutation" that the contracts use; multiplicities are not modelled)
            b, lo, hi = self.iter_range(c.args[0], c.args[2], st)
            nth = self.ev(c.args[1], st)
            if not isinstance(nth, Iter) or IR.pp_expr(nth.base) != IR.pp_expr(c.args[0].args[0] if c.args[0].k == 'call' and c.args[0].fn == 'seq.begin' else nth.base):
                raise E2Error('nth_element: nth is not an iterator of the range')
            if b.lens is not None or isinstance(b.arr, dict) or b.arr is None: raise E2Error('nth_element on a sequence that is not a sequence of scalars')
            self.oblige(st, z3.And(lo == 0, hi == b.n), 'model', 'std::nth_element is modelled for the whole sequence [begin(), end()) only')
            self.oblige(st, z3.And(nth.off >= 0, nth.off <= b.n), 'bounds', 'nth lies within [first, last]')
            tgt = self.ev(c.args[0], st).base
            nb = self.fresh_val('seq<%s>' % b.et, 'nth_element', st)
            self._nth_calls = getattr(self, '_nth_calls', 0) + 1
            pf = z3.Function('nthperm!%d' % self._nth_calls, z3.IntSort(), z3.IntSort())
            st.assume(nb.n == b.n)
            st.assume(Quant('k', z3.IntVal(0), nth.off, (lambda k, nb=nb, o=nth.off: z3.Select(nb.arr, k) <= z3.Select(nb.arr, o)), 'nth_element: elements before nth are not above it'))
            st.assume(Quant('k', nth.off, b.n, (lambda k, nb=nb, o=nth.off: z3.Select(nb.arr, o) <= z3.Select(nb.arr, k)), 'nth_element: elements from nth on are not below it'))
            st.assume(Quant('k', z3.IntVal(0), b.n, (lambda k, nb=nb, b=b, pf=pf: z3.And(pf(k) >= 0, pf(k) < b.n, z3.Select(nb.arr, k) == z3.Select(b.arr, pf(k)))), 'nth_element: every element is an element of the sequence before the call'))
            self.notes.append('std::nth_element modelled by its contract (pivot property; every element afterwards is an element before; multiplicities not modelled) (C++ standard, A3)')
            self.assign_nocheck(tgt, nb, st)
            return
        if c.kind == 'prim' and c.fn == 'std::swap':
            a = self.ev(c.args[0], st); b = self.ev(c.args[1], st)
            self.assign_nocheck(c.args[0], b, st); self.assign_nocheck(c.args[1], a, st)
            return
        self.ev(c, st)

    # ------------------------------------------------------------ loops
    def modset(self, stmts, acc):
        for s in stmts:
            k = s.k
            if k == 'assign': self.mod_lv(s.lhs, acc, whole=(s.lhs.k in ('var', 'field')))
            elif k == 'decl':
                acc[('var', s.name)] = 'whole'
                if s.init is not None: self.mod_expr(s.init, acc)
            elif k == 'if': self.modset(s.then, acc); self.modset(s.els, acc); self.mod_expr(s.cond, acc)
            elif k == 'block': self.modset(s.body, acc)
            elif k == 'loop': self.modset(s.body, acc); self.modset(s.step, acc)
            elif k == 'callstmt': self.mod_expr(s.call, acc, stmt=True)
            elif k == 'return' and s.e is not None: self.mod_expr(s.e, acc)
            if k == 'assign': self.mod_expr(s.rhs, acc)
        return acc

    def mod_lv(self, lv, acc, whole):
        x = lv; elemwise = not whole
        while x.k in ('index', 'field') or (x.k == 'call' and x.kind == 'user'):
            if x.k == 'index': elemwise = True; x = x.base
            elif x.k == 'field':
                if x.base.k == 'var':
                    key = ('fld', x.base.name, x.name)
                    acc[key] = 'whole' if (acc.get(key) == 'whole' or not elemwise) else 'elem'
                    return
                x = x.base
            else:
                x = x.args[0]; elemwise = True
        if x.k == 'var':
            key = ('var', x.name)
            acc[key] = 'whole' if (acc.get(key) == 'whole' or not elemwise) else 'elem'

    def mod_expr(self, e, acc, stmt=False):
        if not isinstance(e, IR.E): return
        if e.k == 'call':
            if e.kind == 'prim' and e.fn in MUTATING:
                self.mod_lv(e.args[0], acc, whole=True)
            elif e.kind == 'prim' and e.fn == 'std::swap':
                self.mod_lv(e.args[0], acc, whole=(e.args[0].k != 'index')); self.mod_lv(e.args[1], acc, whole=(e.args[1].k != 'index'))
            elif e.kind == 'user':
                try:
                    f = self.func(e.fn)
                except Exception:
                    f = None
                if f is not None:
                    args = list(e.args)
                    sp_ = self.spec_of(e.fn)
                    inl = (sp_ is not None and sp_.inline) or (self.cur is not None and (f.qual in self.cur.inline_callees or f.name in self.cur.inline_callees))
                    o = args.pop(0) if getattr(e, 'method', False) else None
                    if inl and getattr(self, '_mod_depth', 0) < 6:
                        # effect of an inlined callee: its own assigned fields / reference parameters, mapped to the call site
                        self._mod_depth = getattr(self, '_mod_depth', 0) + 1
                        try:
                            sub = self.modset(f.body, {})
                        finally:
                            self._mod_depth -= 1
                        byref = {pn: a for (pn, pt, br), a in zip(f.params, args) if br}
                        for key, how in sub.items():
                            if key[0] == 'fld' and key[1] == 'self' and o is not None:
                                self.mod_lv(IR.E('field', None, base=o, name=key[2]), acc, whole=(how == 'whole'))
                            elif key[0] == 'var' and key[1] == 'self' and o is not None:
                                self.mod_lv(o, acc, whole=True)
                            elif key[0] == 'var' and key[1] in byref:
                                self.mod_lv(byref[key[1]], acc, whole=(how == 'whole' and byref[key[1]].k != 'index'))
                    else:
                        if o is not None and not f.is_const and not (f.ret_ref and self.is_accessor(f)):
                            if sp_ is not None and sp_.assigns is not None and o.k == 'var':
                                for t in sp_.assigns:
                                    if t.k == 'field' and t.base.k == 'name' and t.base.name == 'self':
                                        acc[('fld', o.name, t.name)] = 'whole'
                            else:
                                self.mod_lv(o, acc, whole=True)
                        touched = None
                        if sp_ is not None and sp_.assigns is not None:
                            touched = set()
                            for t in sp_.assigns:
                                y = t
                                while y.k in ('field', 'index'): y = y.base
                                if y.k == 'name': touched.add(y.name)
                        for (pn, pt, br), a in zip(f.params, args):
                            if br and (touched is None or pn in touched) and pt not in ('prng',): self.mod_lv(a, acc, whole=True)
        for v in e.__dict__.values():
            if isinstance(v, IR.E): self.mod_expr(v, acc)
            elif isinstance(v, list):
                for a in v: self.mod_expr(a, acc)

    def is_accessor(self, f):
        """reference-returning member without assignments (operator[]): a read unless it is an assignment target"""
        for s_ in walk_stmts(f.body):
            if s_.k in ('assign', 'loop', 'callstmt'): return False
        return True

    def havoc_mod(self, mod, st):
        for key, how in mod.items():
            if key[0] == 'var':
                nm = key[1]
                if nm not in st.env: continue
                old = st.env[nm]
                st.env[nm] = self.havoc_val(old, nm, how, st, self.vartypes.get(nm))
            else:
                _, base, fld = key
                if base not in st.env: continue
                b = st.env[base]
                ft = dict(self.records.fields(b.name)).get(fld) if not b.name.startswith('pair<') else None
                nf = dict(b.f); nf[fld] = self.havoc_val(b.f[fld], base + '.' + fld, how, st, ft)
                st.env[base] = Rec(b.name, nf)

    def havoc_val(self, old, nm, how, st, t=None):
        if isinstance(old, PySeq): raise E2Error('sequence of records modified in a loop with an invariant (bounded views only)')
        if isinstance(old, Seq) and isinstance(old.arr, dict):
            n_ = old.n if how == 'elem' else fresh('hv.' + nm + '.len', z3.IntSort())
            if how != 'elem': st.assume(z3.And(n_ >= 0, n_ <= 2 ** 31))
            return Seq(old.et, {fn_: fresh('hv.%s.%s' % (nm, fn_), a_.sort()) for fn_, a_ in old.arr.items()}, n_)
        if isinstance(old, Seq) and how == 'elem' and old.arr is not None:
            if old.lens is not None:
                return Seq(old.et, fresh('hv.' + nm, old.arr.sort()), old.n, old.lens)
            return Seq(old.et, fresh('hv.' + nm, old.arr.sort()), old.n)
        if t is not None and (t in INTS or t in ('bool', 'double') or IR.is_seq(t) or t.startswith('rec:')):
            return self.fresh_val(t, 'hv.' + nm, st)
        return self.fresh_like(old, 'hv.' + nm, st)

    def exec_loop(self, L, st):
        ls = self.cur.loops.get(L.ordinal) if self.cur is not None else None
        name = '%sloop%d' % (self.prefix, L.ordinal)
        if getattr(self, 'fallback_unroll', None):
            # bounded fallback (the loop clauses of the contract do not fit the code any more): every loop is unrolled a few times,
            # longer runs are cut off; whatever fails on the explored paths is a genuine counterexample, passing proves nothing
            return self.unroll_loop(L, st, self.fallback_unroll)
        if ls is None:
            n = self.cur.unroll.get(L.ordinal) if self.cur is not None else None
            if n is None and self.cur is not None and self.cur.options.get('auto_unroll'):
                n = int(self.cur.options['auto_unroll'])
            if n is None:
                raise E2Error('%s has no invariant in the contract file' % name)
            return self.unroll_loop(L, st, n)
        if L.kind == 'DoStmt' and not getattr(L, '_first_done', False):
            # do { body } while(c): the body runs once unconditionally; the invariant is stated at the test (after each body run)
            out0 = []
            for p0, status0, rv0 in self.exec_block(L.body, st):
                if status0 in ('normal', 'continue'):
                    L._first_done = True
                    try: out0 += self.exec_loop(L, p0)
                    finally: L._first_done = False
                elif status0 == 'break': out0.append((p0, 'normal', None))
                else: out0.append((p0, status0, rv0))
            return out0
        saved_scope, saved_lo = st.scope, st.loop_old
        st.scope = L.scope; st.loop_old = dict(st.env)
        self.loops_seen.add(L.ordinal)
        for u in ls.uses_base: self.use_lemma(u, st)
        for inv in ls.invariants:
            if inv.engines and 'E2' not in inv.engines: continue
            self.check_clause(inv, st, 'loop%d.invariant_base' % L.ordinal)
        mod = self.modset(L.body + L.step, {})
        sum_terms = self.loop_summaries(L, ls, st, mod) if ls.summaries else []
        h = st.clone()
        self.havoc_mod(mod, h)
        for inv in ls.invariants:
            if inv.engines and 'E2' not in inv.engines: continue
            self.assume_clause(inv.expr, h)
        for u in ls.uses: self.use_lemma(u, h)
        c = self.ev(L.cond, h)
        out = []
        ex = h.clone(); ex.assume(z3.Not(c)); ex.scope = saved_scope; ex.loop_old = saved_lo
        b = h.clone(); b.assume(c)
        dec0 = self.sv(ls.decreases.expr, b) if ls.decreases is not None else None
        paths = self.exec_block(L.body, b)
        for p, status, rv in paths:
            if status in ('normal', 'continue'):
                for u in ls.uses_end: self.use_lemma(u, p)
                for q, s2, _ in self.exec_block(L.step, p):
                    q.scope = L.scope
                    for inv in ls.invariants:
                        if inv.engines and 'E2' not in inv.engines: continue
                        self.check_clause(inv, q, 'loop%d.invariant_step' % L.ordinal)
                    if dec0 is not None:
                        d1 = self.sv(ls.decreases.expr, q)
                        # integer variants decrease; real-valued ones must decrease by at least one (well-founded only then)
                        step_ = (d1 < dec0) if (z3.is_int(d1) and z3.is_int(dec0)) else (self.to_real(d1) <= self.to_real(dec0) - 1)
                        self.oblige(q, z3.And(step_, dec0 >= 0), 'loop%d.decreases' % L.ordinal, 'variant %s decreases%s and is bounded below' % (ls.decreases.text, '' if z3.is_int(d1) and z3.is_int(dec0) else ' by at least one'))
            elif status == 'break':
                p.scope = L.scope
                for vn, term in sum_terms: p.assume(self.sv(SP.X('name', name=vn), p) == term)
                for cl in ls.on_exit: self.check_clause(cl, p, 'loop%d.on_exit' % L.ordinal)
                p.scope = saved_scope; p.loop_old = saved_lo
                out.append((p, 'normal', None))
            else:
                if status == 'return' and ls.on_return:
                    # `on_return`: a clause over the loop's variables that holds wherever the function returns from inside this loop
                    # (`returned` names the returned value)
                    keep_ = (p.scope, 'returned' in p.env, p.env.get('returned'))
                    p.scope = L.scope
                    if rv is not None and not self.curf.ret_ref: p.env['returned'] = rv
                    for cl in ls.on_return: self.check_clause(cl, p, 'loop%d.on_return' % L.ordinal)
                    p.scope = keep_[0]
                    if keep_[1]: p.env['returned'] = keep_[2]
                    else: p.env.pop('returned', None)
                out.append((p, status, rv))
        if not z3.is_true(z3.simplify(c)) and self.feasible(ex, z3.BoolVal(True)):
            if sum_terms:
                ex.scope = L.scope
                for vn, term in sum_terms: ex.assume(self.sv(SP.X('name', name=vn), ex) == term)
                ex.scope = saved_scope
            if ls.on_exit:
                ex.scope = L.scope
                for cl in ls.on_exit: self.check_clause(cl, ex, 'loop%d.on_exit' % L.ordinal)
                ex.scope = saved_scope
            out.append((ex, 'normal', None))
        return out

    def loop_summaries(self, L, ls, st, mod):
        """`summary VAR = UF(args)`: the loop is a deterministic, closed computation, so the value of VAR at its exit is a function
        of the values that the variables it reads have at its entry.  Accepted only if (1) the loop calls nothing but libm
        primitives (no callback, no generator, no user function, no static or namespace-scope variable), and (2) every
        variable it may read before writing it has, at loop entry, a symbolic value built from the symbols of the arguments'
        values only.  Then UF(args at entry) is a sound name for that value, in every run of this function."""
        def fail(msg): raise E2Error('%sloop%d: summary rejected: %s' % (self.prefix, L.ordinal, msg))
        reads = set(); written = set()
        def rd_expr(e):
            if not isinstance(e, IR.E): return
            if e.k == 'var':
                if e.name not in written: reads.add(e.name)
                return
            if e.k == 'call':
                if not (e.kind == 'prim' and (e.fn in IR.LIBM or e.fn in ('iabs', 'std::min', 'std::max'))): fail('call of %s inside the loop' % getattr(e, 'fn', '?'))
            if e.k in ('lambda', 'recctor', 'seqctor'): fail('%s inside the loop' % e.k)
            for v in e.__dict__.values():
                if isinstance(v, IR.E): rd_expr(v)
                elif isinstance(v, list):
                    for a in v: rd_expr(a)
        def rd_stmts(ss, toplevel):
            for s_ in ss:
                k = s_.k
                if k == 'decl':
                    if getattr(s_, 'static', False): fail('static local')
                    if s_.init is not None: rd_expr(s_.init)
                    if toplevel: written.add(s_.name)
                elif k == 'assign':
                    rd_expr(s_.rhs)
                    if s_.lhs.k == 'var':
                        if toplevel: written.add(s_.lhs.name)
                    else: rd_expr(s_.lhs)
                elif k == 'if':
                    rd_expr(s_.cond); rd_stmts(s_.then, False); rd_stmts(s_.els, False)
                elif k == 'block': rd_stmts(s_.body, toplevel)
                elif k == 'loop':
                    rd_expr(getattr(s_, 'cond', None)); rd_stmts(getattr(s_, 'init', []) or [], False); rd_stmts(s_.body, False); rd_stmts(s_.step, False)
                elif k in ('break', 'continue'): pass
                elif k == 'callstmt': rd_expr(s_.call)
                elif k == 'return': fail('return inside the loop')
                elif k == 'exit': fail('exit inside the loop')
                else: fail('statement kind %s' % k)
        rd_expr(L.cond)          # the condition is evaluated before the body writes anything
        rd_stmts(L.body, True); rd_stmts(L.step, False)
        out = []
        for vn, ufn, argx in ls.summaries:
            avals = [self.to_real(self.sv(a, st)) for a in argx]
            allowed = set()
            for a in avals: allowed |= set(k_ for k_ in _free_consts(a))
            for rn in sorted(reads):
                if rn.startswith('$') or rn.startswith('::'): fail('reads captured/namespace variable %s' % rn)
                if rn not in st.env: continue          # declared inside the loop body
                v = st.env[rn]
                if isinstance(v, (Seq, Rec, Fun, Str, PySeq, Iter)) or v is None: fail('reads the non-scalar %s' % rn)
                extra = set(_free_consts(v)) - allowed
                if extra: fail('the entry value of %s is not determined by the arguments of %s (depends on %s)' % (rn, ufn, sorted(extra)[:3]))
            out.append((vn, self.uf(ufn, *([z3.RealSort()] * (len(avals) + 1)))(*avals)))
        return out

    def unroll_loop(self, L, st, n):
        self.bounded.append('%sloop%d unrolled %d times (bounded, not a proof for longer runs)' % (self.prefix, L.ordinal, n))
        out = []
        cur = [st]
        for it in range(n + 1):
            nxt = []
            for s0 in cur:
                c = self.ev(L.cond, s0)
                ex = s0.clone(); ex.assume(z3.Not(c))
                if self.feasible(ex, z3.Not(c)): out.append((ex, 'normal', None))
                if it == n:
                    b = s0.clone(); b.assume(c)
                    if self.cur.options.get('unwinding_assertions', True) and not getattr(self, 'fallback_unroll', None):
                        self.oblige(b, z3.BoolVal(False), 'loop%d.unwind' % L.ordinal, 'loop finishes within %d iterations' % n)
                    continue
                b = s0.clone(); b.assume(c)
                if not self.feasible(b, c): continue
                for p, status, rv in self.exec_block(L.body, b):
                    if status in ('normal', 'continue'):
                        for q, _, _ in self.exec_block(L.step, p): nxt.append(q)
                    elif status == 'break': out.append((p, 'normal', None))
                    else: out.append((p, status, rv))
            cur = nxt
        return out

    # ------------------------------------------------------------ function verification
    def verify_function(self, key):
        fs = self.db.funcs[key]
        if fs.options.get('trusted'): raise E2Error('%s has a trusted contract; it is an assumption, not a goal' % key)
        self.view = key.split('~')[1] if '~' in key else None
        key = key.split('~')[0]
        self.curkey = key
        self.max_unfold = int(fs.options.get('unfold', 5))
        f = self.func(key)
        modes = ['accept', 'reject'] if fs.exits_iff is not None and fs.exits_iff.text.strip() != 'false' else ['accept']      # `exits_iff false`: never exits, nothing to reject
        info = {'function': f.qual, 'mangled': key, 'modes': {}, 'rules': f.rules}
        self.static_failures = getattr(self, 'static_failures', [])
        self.bounded = getattr(self, 'bounded', [])
        self.vacuity = getattr(self, 'vacuity', [])
        for mode in modes:
            self.mode = mode; self.cur = fs; self.curf = f
            qn = f.qual + ('~' + self.view if self.view else '')
            if key.startswith('lambda:'):
                encl, _, path_ = key[7:].rpartition(':')
                try:
                    import hashlib as _hl
                    qn = 'lambda[%s#%s:%s]' % (self.func(encl).qual, _hl.sha1(encl.encode()).hexdigest()[:4], path_) + ('~' + self.view if self.view else '')
                except Exception: pass
            self.prefix = 'E2:%s:%s:' % (qn, mode) if len(modes) > 1 else 'E2:%s:' % qn
            self.vartypes = {}; self.loops_seen = set(); self.exit_sites = 0; self.pow10_args = []
            st = State()
            is_ctor = key.find('C1E') > 0 and f.self_rec == f.name
            if f.self_rec and f.self_rec != 'lambda':
                st.env['self'] = self.fresh_val('rec:' + f.self_rec, 'self', st, constrain=not is_ctor)
                if is_ctor:
                    # members of class type are default-constructed before the body runs
                    sv_ = st.env['self']
                    st.env['self'] = Rec(sv_.name, {fn: (self.default_val(ft, st) if IR.is_seq(ft) else sv_.f[fn]) for fn, ft in self.records.fields(f.self_rec)})
            grid = (fs.options.get('grid') or '').split()       # option grid PARAM R C : a concrete R x C grid of symbolic records (bounded view)
            for pn, pt, br in f.params:
                if grid and grid[0] == pn and pt.startswith('seq<seq<rec:'):
                    rt = IR.elem(IR.elem(pt)); R_, C_ = int(grid[1]), int(grid[2])
                    st.env[pn] = PySeq(IR.elem(pt), [PySeq(rt, [self.fresh_val(rt, '%s.%d.%d' % (pn, r_, c_), st) for c_ in range(C_)]) for r_ in range(R_)])
                    self.bounded.append('%s%s is a concrete %d x %d grid of symbolic records (bounded)' % (self.prefix, pn, R_, C_))
                else:
                    st.env[pn] = self.fresh_val(pt, pn, st)
                self.vartypes[pn] = pt
            for ct, cn in fs.captures:
                tt = {'real': 'double', 'seq': 'seq<double>', 'string': 'str'}.get(ct, ct)
                st.env['$' + cn] = self.fresh_val(tt, 'cap.' + cn, st)
                self.vartypes['$' + cn] = tt
            for gt, gn in fs.ghosts:
                t = {'real': 'double', 'double': 'double', 'int': 'int', 'uint': 'uint', 'bool': 'bool', 'long': 'long', 'seq': 'seq<double>', 'seq2': 'seq<seq<double>>'}.get(gt, gt)
                st.ghost[gn] = self.fresh_val(t, 'g.' + gn, st, constrain=(t != 'int'))
            for gt, gn in fs.ghost_state:
                st.env[gn] = self.fresh_val({'real': 'double'}.get(gt, gt), 'gs.' + gn, st, constrain=False)
            for gt, gn in fs.globals:
                st.env['::' + gn] = self.fresh_val(gt, 'glob.' + gn, st)
            for cl in fs.requires:
                if cl.engines and 'E2' not in cl.engines: continue
                self.assume_clause(cl.expr, st)
            if fs.valid_iff is not None:
                self.assume_validity(fs.valid_iff.expr, st, mode == 'accept')
            elif fs.exits_iff is not None:
                V = self.sv(fs.exits_iff.expr, st)
                st.assume(z3.Not(V) if mode == 'accept' else V)
            if getattr(self, 'fallback_unroll', None):
                # bounded fallback explores small instances only: sequences of at most three elements
                for pn, pt, br in f.params:
                    v_ = st.env.get(pn)
                    if isinstance(v_, Seq): st.assume(v_.n <= self.fallback_unroll)
            for u in fs.uses: self.use_lemma(u, st)
            st.old = dict(st.env)
            self.entry_dec = self.sv(fs.decreases.expr, st) if fs.decreases is not None else None
            self.vacuity.append((self.prefix, list(st.pc)))
            n_before = len(self.obligations)
            paths = self.exec_block(f.body, st)
            nret = 0; nexit = 0
            self.reach = getattr(self, 'reach', [])
            if mode == 'accept':
                self.reach.append((self.prefix, [list(p.pc) for p, status, rv in paths if status != 'exit'][:64]))
            for p, status, rv in paths:
                if status == 'exit':
                    nexit += 1
                    if mode == 'accept' and fs.options.get('may_exit'):
                        continue      # documented give-up exit (iteration cap): partial correctness, reported in the goals file
                    if mode == 'accept':
                        self.oblige(p, z3.BoolVal(False), 'exit_unreachable', 'a meaningful request never terminates the process' + (' (valid: !(%s))' % fs.exits_iff.text if fs.exits_iff else ''))
                    continue
                nret += 1
                if mode == 'reject':
                    if not getattr(self, 'fallback_unroll', None):
                        p.scope = None
                        for u in fs.uses_post:       # lemma facts may be needed to see that the path is infeasible
                            mentioned = set(n_ for a_ in list(u.args) + ([u.when] if getattr(u, 'when', None) is not None else []) for n_ in SP.names_in(a_))
                            if 'result' in mentioned: continue      # there is no result to speak about on this path
                            self.use_lemma(u, p)
                    self.oblige(p, z3.BoolVal(False), 'no_normal_return', 'a meaningless request (%s) never returns normally' % fs.exits_iff.text)
                    continue
                p.scope = None
                if rv is not None and f.ret_ref: self.ev(rv, p)      # the returned reference designates an element inside the object
                if rv is not None and not f.ret_ref: p.env['result'] = rv
                fb = getattr(self, 'fallback_unroll', None)
                if not fb:
                    for u in fs.uses_post: self.use_lemma(u, p)
                allowed_ = set(pn for pn, pt, br in f.params) | set(gn for gt, gn in fs.ghosts) | set(gn for gt, gn in fs.globals) | set(gn for gt, gn in fs.ghost_state) | {'result', 'self'} | set(cn for ct, cn in fs.captures)
                for cl in fs.ensures:
                    if cl.engines and 'E2' not in cl.engines: continue
                    if fb and not (set(SP.names_in(cl.expr)) <= allowed_ | set(self.db.specfns) | set(cb_['uf'] for cb_ in fs.callbacks.values())):
                        continue      # bounded fallback: clauses that mention locals may no longer mean what they meant
                    self.check_clause(cl, p, 'ensures')
                for sn, invs in fs.static_invs.items():
                    live = [k_ for k_ in p.env if k_ == sn or k_.startswith(sn + '__')]
                    if not live and ('::static.' + sn) not in p.env: continue      # declaration not reached on this path
                    for cl in invs: self.check_clause(cl, p, 'static.%s.kept' % sn, what='kept at return: ')
                self.check_frame(fs, f, p)
            if fs.exits_iff is not None and len(modes) > 1 and paths:
                # the exit pair decided by path feasibility alone (every branch into the other side was pruned as infeasible
                # during execution: an unsat answer of the solver per pruned branch) still shows as one obligation per direction
                st_ = paths[0][0]
                if mode == 'accept' and nexit == 0:
                    self.oblige(st_, z3.BoolVal(True), 'exit_unreachable', 'no exit site is reachable on any of the %d feasible paths of a meaningful request (branches into exit sites were shown infeasible during execution)' % len(paths))
                if mode == 'reject' and nret == 0:
                    self.oblige(st_, z3.BoolVal(True), 'no_normal_return', 'none of the %d feasible paths of a meaningless request (%s) returns normally (branches that return were shown infeasible during execution)' % (len(paths), fs.exits_iff.text))
            missing = [k for k in fs.loops if k not in self.loops_seen]
            if missing and mode == 'accept' and not getattr(self, 'fallback_unroll', None):
                raise E2Error('%s: contract mentions loop(s) %s that were not reached/exist' % (f.qual, missing))
            info['modes'][mode] = {'paths': len(paths), 'returns': nret, 'exits': nexit, 'obligations': len(self.obligations) - n_before, 'exit_sites': self.exit_sites}
        return info

    def check_frame(self, fs, f, p):
        if 'self' not in p.old or f.self_rec is None: return
        assigns = fs.assigns
        if assigns is None:
            if not f.is_const: return
            assigns = []
        allowed = set()
        for t in assigns:
            if t.k == 'field' and t.base.k == 'name' and t.base.name == 'self': allowed.add(t.name)
            elif t.k == 'name' and t.name == 'self': return
        o = p.old['self']; n = p.env['self']
        for fn in o.f:
            if fn in allowed: continue
            self.same_value(o.f[fn], n.f[fn], p, 'frame', 'self.%s is not modified' % fn)

    def same_value(self, a, b, p, kind, text):
        if a is b: return
        if isinstance(a, Rec):
            for k in a.f: self.same_value(a.f[k], b.f[k], p, kind, text + '.' + k)
            return
        if isinstance(a, Seq):
            if a.arr is None: return
            if a.arr.eq(b.arr) and a.n.eq(b.n): return
            self.oblige(p, a.n == b.n, kind, text + ' (length)')
            self.oblige(p, Quant('k', z3.IntVal(0), a.n, (lambda k, a=a, b=b: z3.Select(a.arr, k) == z3.Select(b.arr, k)), text), kind, text + ' (elements)')
            return
        if isinstance(a, (Fun, Str)): return
        if a.eq(b): return
        self.oblige(p, a == b, kind, text)

    def verify_lemma(self, name):
        lm = self.db.lemmas[name]
        if getattr(lm, 'is_axiom', False): raise E2Error('%s is an axiom, not a lemma' % name)
        self.prefix = 'E2:lemma:%s:' % name
        self.mode = 'accept'; self.cur = None
        self.max_unfold = int(lm.options.get('unfold', 5))
        st = State()
        for t, n in lm.params:
            tt = {'real': 'double', 'int': 'int', 'nat': 'int', 'bool': 'bool', 'seq': 'seq<double>', 'seq2': 'seq<seq<double>>'}.get(t, t)
            if tt in self.records.layout: tt = 'rec:' + tt
            st.env[n] = self.fresh_val(tt, n, st, constrain=tt.startswith('rec:'))
            if t == 'nat': st.assume(st.env[n] >= 0)
        for gt, gn in getattr(lm, 'globals', []):
            st.env['::' + gn] = self.fresh_val(gt, 'glob.' + gn, st)
        for cl in lm.requires: self.assume_clause(cl.expr, st)
        if 'induction' in lm.options:
            v, lbx = lm.options['induction']
            lb = self.sv(lbx, st)
            # well-foundedness: the preconditions bound the induction variable from below
            self.oblige(st, st.env[v] >= lb, 'induction.bound', 'requires imply %s >= %s' % (v, SP.show(lbx)))
            s2 = st.clone(); s2.env = dict(st.env); s2.env[v] = st.env[v] - 1
            pre = []
            for cl in lm.requires:
                if v in SP.names_in(cl.expr):
                    for c in self.clause_vals(cl.expr, s2):
                        if isinstance(c, Quant):
                            # the quantified precondition at v-1 is proved here (from the one at v), not assumed
                            s3 = st.clone(); s3.assume(st.env[v] - 1 >= lb)
                            self.oblige(s3, c, 'induction.pre', 'quantified precondition holds for %s - 1: %s' % (v, cl.text))
                        else:
                            pre.append(c)
            post = []
            for cl in lm.ensures:
                for c in self.clause_vals(cl.expr, s2):
                    if isinstance(c, Quant): raise E2Error('lemma %s: quantified conclusion in induction hypothesis' % name)
                    post.append(c)
            st.assume(z3.Implies(z3.And(*(pre + [st.env[v] - 1 >= lb])), z3.And(*post)))
        # ghost calls: `call r = KEY(args)` binds r to the result of the function under its contract (the callee's
        # preconditions and validity are obligations of the lemma, its postconditions are what the lemma may use)
        for call_ in getattr(lm, 'calls', []):
            rname, key, argx = call_[:3]
            gsets_x = call_[3] if len(call_) > 3 else None
            f = self.func(key.split('~')[0]); sp = self.db.funcs.get(key)
            if sp is None: raise E2Error('lemma %s: no contract for %s' % (name, key))
            env = {}
            argx = list(argx)
            if f.self_rec and f.self_rec != 'lambda' and len(argx) == len(f.params) + 1:
                env['self'] = self.sv(argx.pop(0), st)       # a method: the first argument is the object
            if len(argx) != len(f.params): raise E2Error('lemma %s: %s takes %d arguments' % (name, f.qual, len(f.params)))
            gsets = None
            if gsets_x:
                gsets = [{gn: self.sv(gx, st) for gn, gx in gs.items()} for gs in gsets_x]
            extra = []
            for vname, vsets in (call_[4] if len(call_) > 4 else []):
                sp2 = self.db.funcs.get(key.split('~')[0] + '~' + vname)
                if sp2 is None: raise E2Error('lemma %s: no view %s of %s' % (name, vname, key))
                extra.append((sp2, [{gn: self.sv(gx, st) for gn, gx in gs.items()} for gs in vsets]))
            for (pn, pt, br), ax in zip(f.params, argx):
                v = self.sv(ax, st)
                if pt in INTS and z3.is_real(v): raise E2Error('lemma %s: argument %s of %s must be an integer' % (name, pn, f.qual))
                if pt == 'double': v = self.to_real(v)
                env[pn] = v
            st.env[rname] = self.contract_call(None, f, sp, st, pre_bound=(env, []), ghost_sets=gsets, extra_views=extra)
        # lemma applications come after the ghost calls, so that they may mention the results
        for u in lm.uses: self.use_lemma(u, st)
        self.vacuity = getattr(self, 'vacuity', [])
        self.vacuity.append((self.prefix, list(st.pc)))
        for cl in lm.ensures: self.check_clause(cl, st, 'ensures')
        return {'lemma': name, 'obligations': len(lm.ensures)}

    # ------------------------------------------------------------ discharge
    def discharge_all(self, verbose=False, nproc=None):
        from . import par
        import os
        todo = [i for i, ob in enumerate(self.obligations) if ob.result is None]
        def one(i):
            ob = self.obligations[i]
            if z3.is_true(z3.simplify(ob.goal)):
                return {'verdict': 'proved', 'backend': 'simplify', 'seconds': 0.0, 'model': None, 'log': []}
            return discharge(ob.hyps, ob.goal, budget=self.budget, skolems=ob.skolems)
        if nproc is None:
            nproc = int(os.environ.get('LPV_JOBS', '4'))
        if len(todo) < 24 or nproc <= 1:
            for i in todo: self.obligations[i].result = one(i)
        else:
            chunks = [todo[k::nproc] for k in range(nproc)]
            res = par.pmap(lambda ch: [(i, one(i)) for i in ch], chunks, nproc)
            for lst in res:
                for i, r in lst: self.obligations[i].result = r
        for ob in self.obligations:
            if verbose and ob.result['verdict'] != 'proved':
                sys.stderr.write('  %s %s: %s  [%s %.2fs]\n' % (ob.result['verdict'].upper(), ob.id, ob.text, ob.result['backend'], ob.result['seconds']))
        return list(self.obligations)

    def check_vacuity(self):
        """every precondition set must be satisfiable (unsat = vacuous contract)"""
        bad = []
        for prefix, hyps in self.vacuity:
            s = z3.Solver(); s.set('timeout', 5000)
            for h in hyps:
                if isinstance(h, Quant): continue
                s.add(h)
            if s.check() == z3.unsat: bad.append(prefix)
        # the end of the function must be reachable under the preconditions (some path is satisfiable)
        for prefix, pcs in getattr(self, 'reach', []):
            if not pcs:
                bad.append(prefix + ' (no terminating path)'); continue
            ok = False
            for pc in pcs:
                s = z3.Solver(); s.set('timeout', 3000)
                for h in pc:
                    if isinstance(h, Quant): continue
                    s.add(h)
                if s.check() != z3.unsat: ok = True; break
            if not ok: bad.append(prefix + ' (end unreachable: contradictory path conditions)')
        return bad

    # ------------------------------------------------------------ relational goals (two runs of one function)
    def verify_relational(self, name, args=()):
        rel = self.db.relations[name]
        key = rel.key
        self.view = key.split('~')[1] if '~' in key else None
        mk = key.split('~')[0]
        fs = self.db.funcs.get(key) or self.db.funcs.get(mk) or SP.FuncSpec(mk)
        f = self.func(mk)
        self.mode = 'accept'; self.cur = fs; self.curf = f
        self.prefix = 'E2:rel:%s:' % name
        self.vartypes = {}; self.loops_seen = set(); self.exit_sites = 0
        self.static_failures = getattr(self, 'static_failures', []); self.bounded = getattr(self, 'bounded', []); self.vacuity = getattr(self, 'vacuity', [])
        st = State()
        envs = []
        for run in (1, 2):
            env = {}
            if f.self_rec and f.self_rec != 'lambda':
                env['self'] = self.fresh_val('rec:' + f.self_rec, 'self%d' % run, st)
            for pn, pt, br in f.params:
                if run == 2 and pn in rel.share: env[pn] = envs[0][pn]
                else: env[pn] = self.fresh_val(pt, '%s_%d' % (pn, run), st)
                self.vartypes[pn] = pt
            envs.append(env)
        for gt, gn in fs.ghosts + rel.ghosts:
            t = {'real': 'double'}.get(gt, gt)
            st.ghost[gn] = self.fresh_val(t, 'g.' + gn, st, constrain=(t != 'int'))
        if f.self_rec and 'self' in rel.share:
            envs[1]['self'] = envs[0]['self']
        for fld in [x[5:] for x in rel.share if x.startswith('self.')]:
            b = envs[1]['self']; nf = dict(b.f); nf[fld] = envs[0]['self'].f[fld]
            envs[1]['self'] = Rec(b.name, nf)
        for gt, gn in fs.ghost_state:
            for env in envs: env[gn] = self.fresh_val({'real': 'double'}.get(gt, gt), 'gs.' + gn, st, constrain=False)
        for gt, gn in fs.globals:
            gv = self.fresh_val(gt, 'glob.' + gn, st)
            for env in envs: env['::' + gn] = gv       # run 2 continues with the global as run 1 left it (copied below)
        def combined(e1, e2):
            c = dict(e1)
            for k, v in e2.items(): c[k + '2'] = v
            return c
        for env in envs:
            st.env = env
            for cl in fs.requires:
                if cl.engines and 'E2' not in cl.engines: continue
                self.assume_clause(cl.expr, st)
            if fs.exits_iff is not None:
                st.assume(z3.Not(self.sv(fs.exits_iff.expr, st)))
        entry = combined(envs[0], envs[1])
        st.env = entry
        for cl in rel.requires: self.assume_clause(cl.expr, st)
        for u in rel.uses: self.use_lemma(u, st)
        self.vacuity.append((self.prefix, list(st.pc)))
        st.env = dict(envs[0]); st.old = dict(envs[0])
        self.entry_dec = None
        n1 = 0; n2 = 0
        for p1, s1, rv1 in self.exec_block(f.body, st):
            if s1 == 'exit': continue
            n1 += 1
            s2 = p1.clone(); s2.env = dict(envs[1]); s2.old = dict(envs[1]); s2.scope = None
            for k, v in p1.env.items():
                if k.startswith('::'): s2.env[k] = v
            for p2, st2, rv2 in self.exec_block(f.body, s2):
                if st2 == 'exit': continue
                n2 += 1
                c = p2.clone(); c.env = combined(p1.env, p2.env); c.old = entry; c.scope = None
                if rv1 is not None: c.env['result'] = rv1
                if rv2 is not None: c.env['result2'] = rv2
                for u in rel.uses_post: self.use_lemma(u, c)
                for cl in rel.ensures: self.check_clause(cl, c, 'ensures')
        return {'relation': name, 'function': f.qual + ' (two runs)', 'paths': [n1, n2], 'rules': f.rules}
