"""Typed clang AST -> small imperative IR (DESIGN.md section 3, rules R1..R20).

Every AST node of a translated function is handled by exactly one rule or raises Unsupported
(R19).  The only dropped nodes are output statements (R5) and allocator/default arguments (R7).
"""
import re
from . import cast


class Unsupported(Exception):
    pass


class E:
    """IR node (expression or statement).  k = kind, t = IR type (expressions), other attrs free."""
    def __init__(self, k, t=None, **a):
        self.k = k; self.t = t
        self.__dict__.update(a)

    def __repr__(self):
        return pp_expr(self) if self.k in EXPR_KINDS else '<%s>' % self.k


EXPR_KINDS = {'lit', 'var', 'field', 'index', 'un', 'bin', 'cast', 'cond', 'call', 'len', 'seqctor',
              'recctor', 'str', 'lambda'}

INT_TYPES = ('int', 'uint', 'long', 'ulong', 'bool', 'char')


# ------------------------------------------------------------------ types

def split_targs(s):
    out = []; d = 0; cur = ''
    for ch in s:
        if ch == '<' or ch == '(': d += 1
        if ch == '>' or ch == ')': d -= 1
        if ch == ',' and d == 0:
            out.append(cur.strip()); cur = ''
        else:
            cur += ch
    if cur.strip(): out.append(cur.strip())
    return out


def ty(q):
    """clang (desugared) qualType -> IR type string."""
    if q is None: return None
    q = q.strip()
    q = re.sub(r'\bconst\b', '', q).strip()
    q = re.sub(r'\bclass\b|\bstruct\b', '', q).strip()
    while q.endswith('&'): q = q[:-1].strip()
    q = q.replace('libphysica::', '')
    prim = {'int': 'int', 'unsigned int': 'uint', 'long': 'long', 'unsigned long': 'ulong', 'double': 'double',
            'bool': 'bool', 'void': 'void', 'char': 'char', 'long long': 'long', 'unsigned long long': 'ulong',
            'float': 'double', 'long double': 'double', 'std::vector::size_type': 'ulong', 'std::size_t': 'ulong', 'size_t': 'ulong'}
    if q in prim: return prim[q]
    if q.endswith('*'):
        return 'ptr<%s>' % ty(q[:-1])
    m = re.match(r'^(.*)\[\d*\]$', q)
    if m:
        return 'seq<%s>' % ty(m.group(1))
    m = re.match(r'^(std::)?vector<(.*)>$', q)
    if m:
        args = split_targs(m.group(2))
        return 'seq<%s>' % ty(args[0])
    m = re.match(r'^std::initializer_list<(.*)>$', q)
    if m:
        return 'seq<%s>' % ty(split_targs(m.group(1))[0])
    m = re.match(r'^std::function<(.*)>$', q)
    if m:
        return 'fun'
    m = re.match(r'^std::pair<(.*)>$', q)
    if m:
        a = split_targs(m.group(1))
        return 'pair<%s,%s>' % (ty(a[0]), ty(a[1]))
    if q.startswith('std::__cxx11::basic_string') or q.startswith('std::basic_string') or q in ('std::string', 'std::__cxx11::string'):
        return 'str'
    if 'mersenne_twister_engine' in q or q == 'std::mt19937':
        return 'prng'
    if q.startswith('std::uniform_real_distribution'):
        return 'urd'
    if q.startswith('__gnu_cxx::__normal_iterator'):
        return 'iter'
    if re.match(r'^[A-Za-z_][A-Za-z_0-9]*$', q):
        return 'rec:' + q
    if q.startswith('(lambda'):
        return 'lambda'
    return 'other:' + q


def node_ty(n):
    t = n.get('type', {})
    return ty(t.get('desugaredQualType') or t.get('qualType'))


def is_seq(t): return t is not None and t.startswith('seq<')
def elem(t): return t[4:-1]


# ------------------------------------------------------------------ translator

TRANSPARENT = {'ParenExpr', 'ExprWithCleanups', 'MaterializeTemporaryExpr', 'CXXBindTemporaryExpr', 'ConstantExpr'}

LIBM = {'sqrt', 'pow', 'exp', 'log', 'log10', 'floor', 'cos', 'sin', 'acos', 'erf', 'fabs', 'abs', 'tan', 'atan', 'atan2',
        'erfc', 'tgamma', 'lgamma', 'ceil', 'round', 'asin', 'cosh', 'sinh', 'tanh', 'isnan', 'isinf', 'fmod', 'cbrt', 'log1p', 'expm1', 'trunc', 'isfinite', 'llround', 'lround', 'copysign'}
STD_FUNCS = {'min', 'max', 'swap', 'min_element', 'max_element', 'accumulate', 'is_sorted', 'upper_bound', 'lower_bound',
             'distance', 'sort', 'unique', 'nth_element', 'exit', 'make_pair', 'move', 'printf', 'reverse', 'find', 'iota', 'to_string'}
SEQ_METHODS = {'size', 'empty', 'push_back', 'back', 'front', 'clear', 'resize', 'assign', 'erase', 'insert', 'begin', 'end',
               'reserve', 'pop_back', 'at'}


class Func:
    def __init__(self):
        self.name = None; self.mangled = None; self.qual = None
        self.params = []      # list of (name, type, byref)
        self.ret = None
        self.self_rec = None  # record name for methods
        self.is_const = False
        self.body = []
        self.loops = []       # loop nodes in source order
        self.rules = {}
        self.callees = set()
        self.ctor_inits = None
        self.exits = []       # (has_diagnostic_before: bool)
        self.captures = set()
        self.src = None


class Translator:
    def __init__(self, unit):
        self.u = unit

    # -- helpers
    def count(self, rule):
        self.f.rules[rule] = self.f.rules.get(rule, 0) + 1

    def fresh_name(self, name):
        n = self.names.get(name, 0)
        self.names[name] = n + 1
        return name if n == 0 else '%s__%d' % (name, n + 1)

    def record_of(self, decl):
        # find the record a method belongs to
        pid = decl.get('parentDeclContextId')
        p = self.u.by_id.get(pid)
        if p is not None and p.get('kind') in ('CXXRecordDecl',):
            return p.get('name')
        sc = decl.get('_scope', '')
        parts = [x for x in sc.split('::') if x]
        if len(parts) >= 2: return parts[-1]
        return None

    def func(self, mangled):
        d = self.u.funcs.get(mangled)
        if d is None:
            raise Unsupported('function %s not found in %s' % (mangled, self.u.src))
        f = Func(); self.f = f
        f.mangled = mangled; f.name = d.get('name'); f.src = self.u.src
        self.names = {}; self.env = {}   # decl id -> IR var name
        self.pre = []; self.tmpn = 0
        self.loop_scope = []
        kind = d['kind']
        q = d.get('type', {}).get('qualType', '')
        f.is_const = q.rstrip().endswith('const')
        if kind in ('CXXMethodDecl', 'CXXConstructorDecl', 'CXXConversionDecl'):
            f.self_rec = self.record_of(d)
            if f.self_rec is None or f.self_rec == '':
                # lambda operator()
                f.self_rec = 'lambda'
        f.qual = (f.self_rec + '::' if f.self_rec else '') + (f.name or '')
        rt = q.split('(')[0].strip()
        f.ret = 'void' if kind == 'CXXConstructorDecl' else ty(rt)
        f.ret_ref = rt.endswith('&')
        body = None
        inits = []
        for c in d.get('inner', []):
            ck = c.get('kind')
            if ck == 'ParmVarDecl':
                qt = c['type'].get('qualType', '')
                byref = qt.strip().endswith('&') and not qt.strip().startswith('const')
                nm = self.fresh_name(c.get('name') or 'arg%d' % len(f.params))
                self.env[c['id']] = (nm, node_ty(c))
                f.params.append((nm, node_ty(c), byref))
            elif ck == 'CXXCtorInitializer':
                inits.append(c)
            elif ck == 'CompoundStmt':
                body = c
        stmts = []
        for ci in inits:
            stmts += self.ctor_init(ci)
        stmts += self.block(body)
        f.body = stmts
        return f

    def ctor_init(self, ci):
        self.count('R17.ctor_init')
        if 'anyInit' in ci:
            fld = ci['anyInit']
            lhs = E('field', ty(fld['type'].get('desugaredQualType') or fld['type']['qualType']), base=E('var', 'rec:' + self.f.self_rec, name='self'), name=fld['name'])
            inner = ci.get('inner', [])
            if not inner:
                return []
            e = self.expr(inner[0])
            out = self.flush()
            if e.k == 'recctor' and e.default:
                return out
            return out + [E('assign', lhs=lhs, rhs=self.coerce(e, lhs.t))]
        if 'baseInit' in ci:
            inner = ci.get('inner', [])
            e = self.expr(inner[0]) if inner else None
            out = self.flush()
            if e is not None and e.k == 'recctor' and e.default:
                return out
            raise Unsupported('base initialiser with arguments')
        inner = ci.get('inner', [])
        if inner and inner[0].get('kind') in ('CXXConstructExpr', 'ExprWithCleanups'):
            e = self.expr(inner[0])
            out = self.flush()
            return out + [E('assign', lhs=E('var', 'rec:' + self.f.self_rec, name='self'), rhs=e)]
        raise Unsupported('ctor initialiser form')

    def coerce(self, e, t):
        if e.t == t or t is None or e.t is None: return e
        if e.t in INT_TYPES + ('double',) and t in INT_TYPES + ('double',):
            return E('cast', t, e=e)
        return e

    def flush(self):
        p = self.pre; self.pre = []
        return p

    def tmp(self, t, init=None):
        self.tmpn += 1
        nm = self.fresh_name('tmp_%d' % self.tmpn)
        self.pre.append(E('decl', name=nm, t=t, init=init))
        return E('var', t, name=nm)

    # -- statements
    def block(self, n):
        out = []
        if n is None: return out
        if n.get('kind') != 'CompoundStmt':
            return self.stmt(n)
        for c in n.get('inner', []):
            out += self.stmt(c)
        return out

    def stmt(self, n):
        k = n.get('kind')
        if k == 'CompoundStmt':
            return [E('block', body=self.block(n))]
        if k == 'NullStmt':
            return []
        if k == 'DeclStmt':
            out = []
            for c in n.get('inner', []):
                out += self.vardecl(c)
            return out
        if k == 'IfStmt':
            inner = n['inner']
            if n.get('hasInit') or n.get('hasVar'):
                raise Unsupported('if with init/var')
            c = self.cond_expr(inner[0])
            pre = self.flush()
            th = self.block_of(inner[1])
            el = self.block_of(inner[2]) if len(inner) > 2 else []
            return pre + [E('if', cond=c, then=th, els=el)]
        if k in ('WhileStmt', 'ForStmt', 'DoStmt', 'CXXForRangeStmt'):
            return self.loop(n)
        if k == 'BreakStmt': return [E('break')]
        if k == 'ContinueStmt': return [E('continue')]
        if k == 'SwitchStmt':
            return self.switch(n)
        if k == 'ReturnStmt':
            inner = n.get('inner', [])
            if inner and (self.f.ret or '').startswith('other:std::complex'):
                # R22: values of type std::complex are not modelled; the returned expression is not translated and the
                # function has no result to speak about (only its control flow is decided)
                self.count('R22.complex_result_dropped')
                return [E('return', e=None)]
            if inner:
                e = self.expr(inner[0])
                pre = self.flush()
                if not self.f.ret_ref:
                    e = self.coerce(e, self.f.ret)
                return pre + [E('return', e=e)]
            return [E('return', e=None)]
        # expression statements
        return self.expr_stmt(n)

    def switch(self, n):
        """R21: switch over a side-effect-free integer variable whose every group of statements ends in break or return
        (the last group may run off the end), without fall-through and without a nested break that would leave the switch:
        an if / else-if chain over the case constants.  Anything else is rejected."""
        inner = n['inner']
        if n.get('hasInit') or n.get('hasVar') or len(inner) != 2: raise Unsupported('switch with init/var')
        sel = self.expr(inner[0])
        if self.pre or sel.k not in ('var', 'field') or sel.t not in ('int', 'uint', 'long', 'ulong'):
            raise Unsupported('switch selector is not a plain integer variable')
        body = inner[1]
        if body.get('kind') != 'CompoundStmt': raise Unsupported('switch body is not a compound statement')
        groups = []      # (list of case constants or None for default, [AST statements])
        def open_label(c):
            # CaseStmt: [ConstantExpr, substatement]; DefaultStmt: [substatement]; labels may nest (case 1: case 2: S)
            labels = []
            while c.get('kind') in ('CaseStmt', 'DefaultStmt'):
                if c['kind'] == 'CaseStmt':
                    ci = c['inner']
                    if len(ci) != 2: raise Unsupported('case range')
                    v = self.expr(ci[0])
                    if v.k != 'lit' or self.pre: raise Unsupported('case label is not an integer literal')
                    labels.append(v); c = ci[1]
                else:
                    labels.append(None); c = c['inner'][0]
            return labels, c
        for c in body.get('inner', []):
            if c.get('kind') in ('CaseStmt', 'DefaultStmt'):
                labels, first = open_label(c)
                groups.append((labels, [first]))
            else:
                if not groups: raise Unsupported('statement before the first case label')
                groups[-1][1].append(c)
        def has_stray_break(x):
            if not isinstance(x, dict): return False
            kk = x.get('kind')
            if kk == 'BreakStmt': return True
            if kk in ('WhileStmt', 'ForStmt', 'DoStmt', 'CXXForRangeStmt', 'SwitchStmt', 'LambdaExpr'): return False
            return any(has_stray_break(y) for y in x.get('inner', []))
        arms = []; default = None
        for gi, (labels, stmts) in enumerate(groups):
            last = stmts[-1].get('kind') if stmts else None
            if last == 'BreakStmt': stmts = stmts[:-1]
            elif last != 'ReturnStmt' and gi != len(groups) - 1:
                raise Unsupported('switch group falls through into the next one')
            if any(has_stray_break(x) for x in stmts): raise Unsupported('break inside a switch group')
            blk = []
            for x in stmts: blk += self.stmt(x)
            if None in labels:
                if default is not None or len(labels) != 1: raise Unsupported('default label shared with a case label')
                default = blk
            else:
                cond = None
                for v in labels:
                    c1 = E('bin', 'bool', op='==', l=sel, r=self.coerce(v, sel.t))
                    cond = c1 if cond is None else E('bin', 'bool', op='||', l=cond, r=c1)
                arms.append((cond, blk))
        self.count('R21.switch')
        out = default if default is not None else []
        for cond, blk in reversed(arms):
            out = [E('if', cond=cond, then=blk, els=out)]
        return out

    def block_of(self, n):
        if n.get('kind') == 'CompoundStmt':
            return self.block(n)
        return self.stmt(n)

    def vardecl(self, c):
        if c.get('kind') != 'VarDecl':
            if c.get('kind') in ('TypedefDecl', 'TypeAliasDecl'): return []
            raise Unsupported('decl kind %s' % c.get('kind'))
        t = node_ty(c)
        qt = c['type'].get('qualType', '')
        isref = qt.strip().endswith('&')
        nm = self.fresh_name(c['name'])
        static = c.get('storageClass') == 'static'
        if static and qt.strip().startswith('const ') and not isref:
            static = False     # a const static with an initialiser is immutable: it always holds its initial value
            self.count('R16.const_static')
        inner = [x for x in c.get('inner', []) if x.get('kind') not in ('FullComment',)]
        init = None
        if inner:
            init = self.expr(inner[0])
        pre = self.flush()
        if isref:
            # local reference: alias of an lvalue
            if init is None or not (init.k in ('var', 'field', 'index') or (init.k == 'call' and getattr(init, 'ret_ref', False))):
                raise Unsupported('local reference to non-lvalue')
            self.env[c['id']] = ('@alias', init)
            self.count('R17.alias')
            return pre
        self.env[c['id']] = (nm, t)
        if init is not None and init.k == 'recctor' and init.default and not init.args:
            init = init
        if init is not None:
            init = self.coerce(init, t)
        return pre + [E('decl', name=nm, t=t, init=init, static=static)]

    def loop(self, n):
        k = n['kind']
        inner = n['inner']
        out = []
        ordinal = len(self.f.loops)
        L = E('loop', ordinal=ordinal, kind=k)
        self.f.loops.append(L)
        if k == 'WhileStmt':
            cond = self.cond_expr(inner[0])
            if self.pre: raise Unsupported('side effect in loop condition')
            L.cond = cond; L.step = []
            L.scope = self.scope_snapshot()
            L.body = self.block_of(inner[1])
        elif k == 'DoStmt':
            L.scope = self.scope_snapshot()
            L.body = self.block_of(inner[0])
            cond = self.cond_expr(inner[1])
            if self.pre: raise Unsupported('side effect in loop condition')
            L.cond = cond; L.step = []
        elif k == 'ForStmt':
            init, condvar, cond, inc, body = inner
            if init and init.get('kind'):
                out += self.stmt(init)
            if condvar and condvar.get('kind'): raise Unsupported('for condvar')
            if cond and cond.get('kind'):
                L.cond = self.cond_expr(cond)
                if self.pre: raise Unsupported('side effect in loop condition')
            else:
                L.cond = E('lit', 'bool', v=True)
            L.scope = self.scope_snapshot()
            L.step = self.expr_stmt(inc) if inc and inc.get('kind') else []
            L.body = self.block_of(body)
        else:  # CXXForRangeStmt
            self.count('R15')
            # inner: [init?, range decl, begin decl, end decl, cond, inc, loopvar decl, body]
            parts = inner
            rangedecl = parts[1]['inner'][0]
            rng = self.expr(rangedecl['inner'][0])
            if self.pre: raise Unsupported('side effect in range expr')
            if rng.k not in ('var', 'field', 'index'):
                # materialise
                rv = self.tmp(rng.t, rng)
                out += self.flush()
                rng = rv
            idx = self.fresh_name('it_%d' % ordinal)
            out.append(E('decl', name=idx, t='ulong', init=E('lit', 'ulong', v=0)))
            iv = E('var', 'ulong', name=idx)
            L.cond = E('bin', 'bool', op='<', l=iv, r=E('len', 'ulong', seq=rng))
            L.step = [E('assign', lhs=iv, rhs=E('bin', 'ulong', op='+', l=iv, r=E('lit', 'ulong', v=1)))]
            vd = parts[6]['inner'][0]
            qt = vd['type'].get('qualType', '')
            el = E('index', elem(rng.t), base=rng, idx=iv)
            body_pre = []
            if qt.strip().endswith('&'):
                self.env[vd['id']] = ('@alias', el)
            else:
                nm = self.fresh_name(vd['name'])
                self.env[vd['id']] = (nm, node_ty(vd))
                body_pre = [E('decl', name=nm, t=node_ty(vd), init=el)]
            L.scope = self.scope_snapshot()
            L.body = body_pre + self.block_of(parts[7])
        out.append(L)
        return [E('block', body=out)] if k in ('ForStmt', 'CXXForRangeStmt') else out

    def scope_snapshot(self):
        sc = {}
        for did, v in self.env.items():
            if v[0] == '@alias': continue
            d = self.u.by_id.get(did)
            src = d.get('name') if d else v[0]
            sc[src] = v[0]          # later declarations shadow earlier ones
        return sc

    def expr_stmt(self, n):
        k = n.get('kind')
        while k in TRANSPARENT:
            n = n['inner'][0]; k = n.get('kind')
        if self.is_output(n):
            self.count('R5')
            lit = self.output_has_literal(n)
            return [E('output', non_empty=lit)]
        if k == 'BinaryOperator' and n['opcode'] == '=':
            lhs = self.expr(n['inner'][0]); rhs = self.expr(n['inner'][1])
            pre = self.flush()
            return pre + [E('assign', lhs=lhs, rhs=self.coerce(rhs, lhs.t))]
        if k == 'CompoundAssignOperator':
            lhs = self.expr(n['inner'][0]); rhs = self.expr(n['inner'][1])
            pre = self.flush()
            return pre + [self.compound(n, lhs, rhs)]
        if k == 'UnaryOperator' and n['opcode'] in ('++', '--'):
            lhs = self.expr(n['inner'][0])
            pre = self.flush()
            op = '+' if n['opcode'] == '++' else '-'
            return pre + [E('assign', lhs=lhs, rhs=E('bin', lhs.t, op=op, l=lhs, r=E('lit', lhs.t, v=1)))]
        if k == 'BinaryOperator' and n['opcode'] == ',':
            return self.expr_stmt(n['inner'][0]) + self.expr_stmt(n['inner'][1])
        e = self.expr(n)
        pre = self.flush()
        if e.k == 'call':
            return pre + [E('callstmt', call=e)]
        if e.k in ('var', 'lit', 'field', 'index'):
            return pre     # value discarded
        raise Unsupported('expression statement %s' % k)

    def compound(self, n, lhs, rhs):
        op = n['opcode'][:-1]
        ct = n.get('computeResultType', {})
        ctt = ty(ct.get('desugaredQualType') or ct.get('qualType')) if ct else lhs.t
        l = self.coerce(lhs, ctt); r = self.coerce(rhs, ctt)
        return E('assign', lhs=lhs, rhs=self.coerce(E('bin', ctt, op=op, l=l, r=r), lhs.t))

    # -- output detection (R5)
    def is_output(self, n):
        k = n.get('kind')
        while k in TRANSPARENT or k == 'ImplicitCastExpr':
            n = n['inner'][0]; k = n.get('kind')
        if k == 'CXXOperatorCallExpr':
            callee = self.callee_decl(n)
            if callee and callee.get('name') == 'operator<<':
                t = node_ty(n) or ''
                q = n.get('type', {}).get('qualType', '')
                if 'ostream' in q or 'ostream' in t or 'Logger' in q:
                    return True
        if k == 'CXXMemberCallExpr':
            me = n['inner'][0]
            if me.get('kind') == 'MemberExpr' and me.get('name') in ('operator<<', 'flush', 'precision', 'open', 'close', 'setf', 'width'):
                q = n.get('type', {}).get('qualType', '')
                bq = me['inner'][0].get('type', {}).get('qualType', '')
                if 'stream' in q or 'stream' in bq:
                    return True
        if k == 'CallExpr':
            cd = self.callee_decl(n)
            if cd and cd.get('name') in ('printf', 'fflush'):
                return True
        return False

    def output_has_literal(self, n):
        found = []
        def walk(x):
            if x.get('kind') == 'StringLiteral' and len(x.get('value', '""')) > 2:
                found.append(1)
            for c in x.get('inner', []): walk(c)
        walk(n)
        return bool(found)

    def callee_decl(self, n):
        c = n['inner'][0]
        while c.get('kind') in ('ImplicitCastExpr', 'ParenExpr'):
            c = c['inner'][0]
        if c.get('kind') == 'DeclRefExpr':
            return c.get('referencedDecl')
        if c.get('kind') == 'MemberExpr':
            d = self.u.by_id.get(c.get('referencedMemberDecl'))
            return d or {'name': c.get('name'), 'kind': 'CXXMethodDecl'}
        if c.get('kind') == 'UnresolvedLookupExpr':
            return {'name': c.get('name'), 'kind': 'Unresolved'}
        return None

    # -- expressions
    def cond_expr(self, n):
        e = self.expr(n)
        return self.to_bool(e)

    def to_bool(self, e):
        if e.t == 'bool': return e
        if e.t in INT_TYPES: return E('bin', 'bool', op='!=', l=e, r=E('lit', e.t, v=0))
        if e.t == 'double': return E('bin', 'bool', op='!=', l=e, r=E('lit', 'double', v=0.0))
        raise Unsupported('to_bool of %s' % e.t)

    def expr(self, n):
        k = n.get('kind')
        m = getattr(self, 'x_' + k, None)
        if m is None:
            raise Unsupported('AST node %s' % k)
        return m(n)

    def x_ParenExpr(self, n): self.count('R1'); return self.expr(n['inner'][0])
    x_ExprWithCleanups = x_ParenExpr
    x_MaterializeTemporaryExpr = x_ParenExpr
    x_CXXBindTemporaryExpr = x_ParenExpr
    x_ConstantExpr = x_ParenExpr

    def x_IntegerLiteral(self, n): return E('lit', node_ty(n), v=int(n['value']))
    def x_FloatingLiteral(self, n): return E('lit', 'double', v=float(n['value']), text=n['value'])
    def x_CXXBoolLiteralExpr(self, n): return E('lit', 'bool', v=bool(n['value']))
    def x_CharacterLiteral(self, n): return E('lit', 'char', v=int(n['value']))
    def x_StringLiteral(self, n): return E('str', 'str', v=n.get('value', '').strip('"'))
    def x_CXXNullPtrLiteralExpr(self, n): return E('lit', 'ptr', v=0)

    def x_CXXThisExpr(self, n):
        self.count('R3')
        return E('var', 'rec:' + self.f.self_rec, name='self')

    def x_DeclRefExpr(self, n):
        rd = n['referencedDecl']
        did = rd['id']
        if did in self.env:
            v = self.env[did]
            if v[0] == '@alias': return v[1]
            return E('var', v[1], name=v[0])
        kind = rd.get('kind')
        if n.get('refersToEnclosingVariableOrCapture') or (kind == 'ParmVarDecl'):
            self.count('R13.capture')
            self.f.captures.add(rd['name'])
            return E('var', node_ty(n), name='$' + rd['name'], capture=True)
        if kind == 'VarDecl':
            d = self.u.by_id.get(did, rd)
            g = self.u.globals.get(rd.get('name'))
            is_global = (g is not None and g.get('id') == did) or d.get('storageClass') == 'static'
            if not is_global and self.f.self_rec == 'lambda':
                # an automatic variable of the enclosing function referred to from a lambda body: a capture (clang omits the
                # refersToEnclosingVariableOrCapture flag in some by-copy cases)
                self.count('R13.capture')
                self.f.captures.add(rd['name'])
                return E('var', node_ty(n), name='$' + rd['name'], capture=True)
            # namespace-scope or static variable (R16)
            self.count('R16')
            return E('var', node_ty(n), name='::' + rd['name'], glob=True)
        if kind == 'EnumConstantDecl':
            d = self.u.by_id.get(did)
            raise Unsupported('enum constant')
        if kind in ('FunctionDecl', 'CXXMethodDecl'):
            return E('var', 'funref', name=rd['name'], decl=rd)
        raise Unsupported('DeclRef to %s' % kind)

    def x_MemberExpr(self, n):
        base = self.expr(n['inner'][0])
        t = node_ty(n)
        self.count('R3')
        if base.k == 'call' or base.k == 'recctor':
            base = self.tmp(base.t, base)
        return E('field', t, base=base, name=n['name'])

    def x_ImplicitCastExpr(self, n):
        ck = n.get('castKind')
        inner = n['inner'][0]
        if ck in ('LValueToRValue', 'NoOp', 'FunctionToPointerDecay', 'ArrayToPointerDecay', 'ConstructorConversion', 'UserDefinedConversion', 'DerivedToBase', 'UncheckedDerivedToBase'):
            self.count('R1')
            return self.expr(inner)
        if ck in ('IntegralCast', 'IntegralToFloating', 'FloatingToIntegral', 'IntegralToBoolean', 'FloatingCast', 'FloatingToBoolean'):
            self.count('R2')
            e = self.expr(inner)
            t = node_ty(n)
            if ck == 'IntegralToBoolean' or ck == 'FloatingToBoolean':
                return self.to_bool(e)
            if e.k == 'lit' and e.t in INT_TYPES and t in INT_TYPES and e.v >= 0:
                return E('lit', t, v=int(e.v))
            if e.k == 'lit' and e.t in INT_TYPES and t == 'double':
                return E('lit', 'double', v=float(e.v), text=str(e.v))
            if e.t == t: return e
            return E('cast', t, e=e)
        raise Unsupported('cast kind %s' % ck)

    def x_CStyleCastExpr(self, n):
        ck = n.get('castKind')
        if ck in ('NoOp', 'IntegralCast', 'IntegralToFloating', 'FloatingToIntegral', 'FloatingCast', 'ToVoid'):
            return self.x_ImplicitCastExpr(n)
        raise Unsupported('C cast %s' % ck)
    x_CXXStaticCastExpr = x_CStyleCastExpr

    def x_CXXFunctionalCastExpr(self, n):
        ck = n.get('castKind')
        if ck in ('NoOp', 'ConstructorConversion'):
            return self.expr(n['inner'][0])
        return self.x_CStyleCastExpr(n)

    def x_UnaryOperator(self, n):
        op = n['opcode']
        if op in ('++', '--'):
            lhs = self.expr(n['inner'][0])
            bop = '+' if op == '++' else '-'
            upd = E('assign', lhs=lhs, rhs=E('bin', lhs.t, op=bop, l=lhs, r=E('lit', lhs.t, v=1)))
            if n.get('isPostfix'):
                old = self.tmp(lhs.t, lhs)
                self.pre.append(upd)
                return old
            self.pre.append(upd)
            return lhs
        e = self.expr(n['inner'][0])
        t = node_ty(n)
        if op == '+': return e
        if op == '-':
            if e.k == 'lit' and e.t != 'bool':
                return E('lit', e.t, v=-e.v, text=('-' + e.text) if getattr(e, 'text', None) else None)
            return E('un', t, op='-', e=e)
        if op == '!': return E('un', 'bool', op='!', e=self.to_bool(e))
        if op == '*':
            # dereference of iterator returned by min_element etc.
            if e.k == 'call' and e.fn in ('std::min_element', 'std::max_element'):
                return E('call', elem(e.args[0].t) if is_seq(e.args[0].t) else 'double', fn=e.fn + '.deref', kind='prim', args=e.args)
            if e.k == 'var' and e.name == 'self':
                return e
            raise Unsupported('dereference')
        if op == '&':
            return E('un', 'ptr', op='&', e=e)
        raise Unsupported('unary %s' % op)

    def x_BinaryOperator(self, n):
        op = n['opcode']
        t = node_ty(n)
        if op == '=':
            lhs = self.expr(n['inner'][0]); rhs = self.expr(n['inner'][1])
            self.pre.append(E('assign', lhs=lhs, rhs=self.coerce(rhs, lhs.t)))
            return lhs
        if op == ',':
            self.pre += self.expr_stmt(n['inner'][0])
            return self.expr(n['inner'][1])
        if op in ('&&', '||'):
            l = self.to_bool(self.expr(n['inner'][0]))
            save = self.pre; self.pre = []
            r = self.to_bool(self.expr(n['inner'][1]))
            rpre = self.pre; self.pre = save
            if rpre:
                raise Unsupported('side effect in short-circuit operand')
            return E('bin', 'bool', op=op, l=l, r=r)
        l = self.expr(n['inner'][0]); r = self.expr(n['inner'][1])
        if op in ('<', '<=', '>', '>=', '==', '!='):
            return E('bin', 'bool', op=op, l=l, r=r)
        return E('bin', t, op=op, l=l, r=r)

    def x_CompoundAssignOperator(self, n):
        lhs = self.expr(n['inner'][0]); rhs = self.expr(n['inner'][1])
        self.pre.append(self.compound(n, lhs, rhs))
        return lhs

    def x_ConditionalOperator(self, n):
        c = self.to_bool(self.expr(n['inner'][0]))
        save = self.pre; self.pre = []
        a = self.expr(n['inner'][1]); apre = self.pre; self.pre = []
        b = self.expr(n['inner'][2]); bpre = self.pre
        self.pre = save
        t = node_ty(n)
        if apre or bpre:
            tv = self.tmp(t)
            self.pre.append(E('if', cond=c, then=apre + [E('assign', lhs=tv, rhs=self.coerce(a, t))], els=bpre + [E('assign', lhs=tv, rhs=self.coerce(b, t))]))
            return tv
        return E('cond', t, c=c, a=a, b=b)

    def x_CXXDefaultArgExpr(self, n):
        inner = n.get('inner')
        if inner: return self.expr(inner[0])
        return E('lit', node_ty(n), v=None, default_arg=True)

    def x_InitListExpr(self, n):
        t = node_ty(n)
        items = [self.expr(c) for c in n.get('inner', [])]
        if is_seq(t):
            return E('seqctor', t, form='list', args=[self.coerce(i, elem(t)) for i in items])
        if t.startswith('pair<') or t.startswith('rec:'):
            return E('recctor', t, rec=t, args=items, ctor=None, default=False)
        raise Unsupported('init list of %s' % t)

    def x_CXXStdInitializerListExpr(self, n):
        e = self.expr(n['inner'][0])
        return e

    def x_ImplicitValueInitExpr(self, n):
        t = node_ty(n)
        return E('lit', t, v=0 if t != 'double' else 0.0)

    def x_CXXScalarValueInitExpr(self, n):
        return self.x_ImplicitValueInitExpr(n)

    def x_CXXConstructExpr(self, n):
        t = node_ty(n)
        args = [c for c in n.get('inner', []) if c.get('kind') != 'CXXDefaultArgExpr' or not self._is_allocator(c)]
        if is_seq(t):
            self.count('R7')
            a = [self.expr(c) for c in args]
            if len(a) == 0:
                return E('seqctor', t, form='empty', args=[])
            if len(a) == 1 and a[0].t == t:
                return a[0] if a[0].k in ('seqctor', 'call') else E('seqctor', t, form='copy', args=a)
            if len(a) == 1 and a[0].k == 'seqctor' and a[0].form == 'list':
                a[0].t = t; a[0].args = [self.coerce(i, elem(t)) for i in a[0].args]
                return a[0]
            if len(a) == 1 and a[0].t in INT_TYPES:
                return E('seqctor', t, form='n', args=a)
            if len(a) == 2 and a[0].t in INT_TYPES:
                return E('seqctor', t, form='nv', args=[a[0], self.coerce(a[1], elem(t))])
            if len(a) == 2:
                return E('seqctor', t, form='range', args=a)
            raise Unsupported('vector constructor form (%d args: %s)' % (len(a), [x.t for x in a]))
        if t == 'fun':
            a = [self.expr(c) for c in args]
            if len(a) == 1: return a[0]
            raise Unsupported('std::function ctor')
        if t == 'str':
            a = [self.expr(c) for c in args]
            if len(a) >= 1: return a[0]
            return E('str', 'str', v='')
        if t.startswith('rec:') or t.startswith('pair<') or t == 'lambda':
            a = [self.expr(c) for c in args]
            ctor = None
            # copy/move construction is the identity on values (R17)
            if len(a) == 1 and a[0].t == t:
                self.count('R17.copy')
                return a[0]
            ctor = self._ctor_mangled(n)
            for i, x in enumerate(a):
                if x.k == 'lit' and getattr(x, 'default_arg', False) and ctor:
                    dn = self.default_arg(ctor, i)
                    if dn is None: raise Unsupported('default argument %d of constructor %s not found' % (i, t))
                    a[i] = self.coerce(self.expr(dn), x.t)
            return E('recctor', t, rec=t, args=a, ctor=ctor, default=(len(a) == 0))
        if t in INT_TYPES or t == 'double' or t == 'iter':
            a = [self.expr(c) for c in args]
            return a[0]
        a = [self.expr(c) for c in args]
        return E('call', t, fn='ext:ctor:' + t, kind='ext', args=a)

    def _is_allocator(self, c):
        q = c.get('type', {}).get('qualType', '')
        return 'allocator' in q

    def _ctor_mangled(self, n):
        # clang's JSON does not name the constructor; resolve by record + parameter types
        t = node_ty(n)
        rec = t[4:] if t.startswith('rec:') else None
        if not rec: return None
        argts = []
        for c in n.get('inner', []):
            argts.append(c)
        cands = []
        decls = {}
        for m, d in self.u.funcs.items():
            if d.get('kind') == 'CXXConstructorDecl' and d.get('name') == rec:
                ps = [p for p in d.get('inner', []) if p.get('kind') == 'ParmVarDecl']
                cands.append((m, ps)); decls[m] = d
        # constructors defined in another translation unit: their declarations (from the header) carry the mangled name too
        for d in self.u.by_id.values():
            if d.get('kind') == 'CXXConstructorDecl' and d.get('name') == rec and d.get('mangledName') and d['mangledName'] not in decls and not d.get('isImplicit'):
                ps = [p for p in d.get('inner', []) if p.get('kind') == 'ParmVarDecl']
                cands.append((d['mangledName'], ps)); decls[d['mangledName']] = d
        ctype = n.get('type', {}).get('qualType')
        # match on the constructor's function type recorded by clang when present
        want = None
        for key in ('ctorType', 'constructorType'):
            if key in n: want = n[key].get('qualType')
        if want:
            for m, ps in cands:
                if decls[m].get('type', {}).get('qualType') == want:
                    return m
        for m, ps in cands:
            if len(ps) == len(argts):
                ok = True
                for p, a in zip(ps, argts):
                    if node_ty(p) != node_ty(a) and not (node_ty(p) in INT_TYPES + ('double',) and node_ty(a) in INT_TYPES + ('double',)):
                        ok = False
                if ok: return m
        return None

    def x_CXXTemporaryObjectExpr(self, n):
        return self.x_CXXConstructExpr(n)

    def x_CXXOperatorCallExpr(self, n):
        cd = self.callee_decl(n)
        name = cd.get('name') if cd else None
        args = n['inner'][1:]
        if name == 'operator[]':
            base = self.expr(args[0]); idx = self.expr(args[1])
            if is_seq(base.t):
                self.count('R4')
                if base.k in ('seqctor',) or (base.k == 'call' and not getattr(base, 'ret_ref', False)):
                    base = self.tmp(base.t, base)
                return E('index', elem(base.t), base=base, idx=idx)
            return self.user_call(cd, [base, idx], n)
        if name == 'operator=':
            lhs = self.expr(args[0]); rhs = self.expr(args[1])
            if is_seq(lhs.t) or lhs.t == 'fun' or lhs.t == 'str' or lhs.t.startswith('pair<'):
                self.pre.append(E('assign', lhs=lhs, rhs=rhs))
                return lhs
            if lhs.t.startswith('rec:'):
                d = self.u.by_id.get(cd['id'], cd)
                if d.get('isImplicit') or not self._has_body(cd):
                    self.count('R17.assign')
                    self.pre.append(E('assign', lhs=lhs, rhs=rhs))
                    return lhs
                return self.user_call(cd, [lhs, rhs], n)
            raise Unsupported('operator= on %s' % lhs.t)
        if name == 'operator()':
            callee = self.expr(args[0])
            a = [self.expr(c) for c in args[1:]]
            if callee.t == 'fun' or callee.t == 'lambda':
                self.count('R11')
                return E('call', node_ty(n), fn=callee, kind='callback', args=a)
            return self.user_call(cd, [callee] + a, n)
        if name in ('operator+', 'operator-') and len(args) == 2:
            a0 = self.expr(args[0]); a1 = self.expr(args[1])
            if a0.t == 'iter' or (a0.k == 'call' and a0.fn in ('seq.begin', 'seq.end')):
                return E('call', 'iter', fn='iter' + name[-1], kind='prim', args=[a0, a1])
            return self.user_call(cd, [a0, a1], n)
        if name == 'operator<<':
            raise Unsupported('operator<< in value position')
        if name in ('operator==', 'operator!='):
            a0 = self.expr(args[0]); a1 = self.expr(args[1])
            if a0.t == 'str' or a1.t == 'str':
                self.count('R14')
                e = E('call', 'bool', fn='str.eq', kind='prim', args=[a0, a1])
                return e if name == 'operator==' else E('un', 'bool', op='!', e=e)
            if a0.t == 'iter':
                return E('call', 'bool', fn='iter' + name[-2:], kind='prim', args=[a0, a1])
            if is_seq(a0.t):
                e = E('call', 'bool', fn='seq.eq', kind='prim', args=[a0, a1])
                return e if name == 'operator==' else E('un', 'bool', op='!', e=e)
            return self.user_call(cd, [a0, a1], n)
        a = [self.expr(c) for c in args]
        if name == 'operator*' and len(a) == 1:
            e = a[0]
            if e.k == 'call' and e.fn in ('std::min_element', 'std::max_element'):
                return E('call', node_ty(n), fn=e.fn + '.deref', kind='prim', args=e.args)
            if e.t == 'iter':
                return E('call', node_ty(n), fn='iter.deref', kind='prim', args=[e])
        return self.user_call(cd, a, n)

    def x_ArraySubscriptExpr(self, n):
        base = self.expr(n['inner'][0]); idx = self.expr(n['inner'][1])
        if not is_seq(base.t): raise Unsupported('subscript of %s' % base.t)
        self.count('R4')
        return E('index', elem(base.t), base=base, idx=idx)

    def _has_body(self, cd):
        d = self.u.by_id.get(cd.get('id'))
        if d is None: return False
        mn = d.get('mangledName')
        return mn in self.u.funcs

    def default_arg(self, mangled, index):
        """default argument expression of parameter `index`, taken from whichever redeclaration carries it"""
        if not hasattr(self.u, '_defaults'):
            self.u._defaults = {}
            for d in self.u.by_id.values():
                mn = d.get('mangledName')
                if not mn or d.get('kind') not in ('FunctionDecl', 'CXXMethodDecl', 'CXXConstructorDecl'): continue
                ps = [p for p in d.get('inner', []) if p.get('kind') == 'ParmVarDecl']
                for i, p in enumerate(ps):
                    if p.get('init') and p.get('inner'):
                        self.u._defaults[(mn, i)] = p['inner'][0]
        return self.u._defaults.get((mangled, index))

    def user_call(self, cd, args, n):
        d = self.u.by_id.get(cd.get('id'), cd)
        mn = d.get('mangledName')
        if mn:
            off = 1 if d.get('kind') in ('CXXMethodDecl', 'CXXConversionDecl') and len(args) and True else 0
            nparams = len([p for p in d.get('inner', []) if p.get('kind') == 'ParmVarDecl'])
            off = len(args) - nparams if nparams and len(args) >= nparams else 0
            for i, a in enumerate(args):
                if a.k == 'lit' and getattr(a, 'default_arg', False):
                    dn = self.default_arg(mn, i - off)
                    if dn is None: raise Unsupported('default argument %d of %s not found' % (i - off, cd.get('name')))
                    args[i] = self.coerce(self.expr(dn), a.t)
        if mn is None or not mn.startswith('_ZN10libphysica') and not mn.startswith('_ZZN10libphysica') and not mn.startswith('_ZNK10libphysica'):
            return E('call', node_ty(n), fn='ext:' + str(cd.get('name')), kind='ext', args=args)
        self.f.callees.add(mn)
        return E('call', node_ty(n), fn=mn, kind='user', args=args, name=cd.get('name'),
                 method=(d.get('kind') in ('CXXMethodDecl', 'CXXConversionDecl')),
                 ret_ref=d.get('type', {}).get('qualType', '').split('(')[0].strip().endswith('&'))

    def x_CXXMemberCallExpr(self, n):
        me = n['inner'][0]
        while me.get('kind') in ('ImplicitCastExpr', 'ParenExpr'): me = me['inner'][0]
        if me.get('kind') != 'MemberExpr':
            raise Unsupported('member call through %s' % me.get('kind'))
        name = me.get('name')
        base = self.expr(me['inner'][0])
        args = [self.expr(c) for c in n['inner'][1:] if not (c.get('kind') == 'CXXDefaultArgExpr' and self._is_allocator(c))]
        t = node_ty(n)
        if is_seq(base.t):
            if name not in SEQ_METHODS: raise Unsupported('vector method %s' % name)
            self.count('R8')
            if base.k in ('call', 'seqctor'):
                base = self.tmp(base.t, base)
            if name == 'size':
                return E('len', 'ulong', seq=base)
            if name == 'empty':
                return E('bin', 'bool', op='==', l=E('len', 'ulong', seq=base), r=E('lit', 'ulong', v=0))
            if name == 'back':
                return E('index', elem(base.t), base=base, idx=E('bin', 'ulong', op='-', l=E('len', 'ulong', seq=base), r=E('lit', 'ulong', v=1)))
            if name == 'front':
                return E('index', elem(base.t), base=base, idx=E('lit', 'ulong', v=0))
            if name == 'at':
                return E('index', elem(base.t), base=base, idx=args[0])
            if name == 'push_back':
                args = [self.coerce(args[0], elem(base.t))]
            return E('call', t if name not in ('begin', 'end') else 'iter', fn='seq.' + name, kind='prim', args=[base] + args)
        if base.t == 'fun' and name == 'operator()':
            return E('call', t, fn=base, kind='callback', args=args)
        if base.t in ('str',):
            return E('call', t, fn='str.' + name, kind='prim', args=[base] + args)
        if base.t and (base.t.startswith('other:') or base.t in ('urd', 'prng')):
            return E('call', t, fn='ext.' + name, kind='prim', args=[base] + args)
        d = self.u.by_id.get(me.get('referencedMemberDecl'))
        if d is None:
            raise Unsupported('unresolved member %s' % name)
        return self.user_call({'id': d['id'], 'name': name}, [base] + args, n)

    def x_CallExpr(self, n):
        cd = self.callee_decl(n)
        if cd is None:
            raise Unsupported('indirect call')
        name = cd.get('name')
        args_n = n['inner'][1:]
        t = node_ty(n)
        d = self.u.by_id.get(cd.get('id'))
        in_lib = d is not None and d.get('mangledName', '').startswith('_ZN10libphysica')
        if in_lib:
            args = [self.expr(c) for c in args_n]
            return self.user_call(cd, args, n)
        if name == 'exit':
            self.count('R6')
            self.pre.append(E('exit'))
            return E('lit', 'void', v=None)
        args = [self.expr(c) for c in args_n]
        if name in LIBM:
            self.count('R12')
            if name == 'abs': name = 'fabs' if args[0].t == 'double' else 'iabs'
            return E('call', t, fn=name, kind='prim', args=args)
        if name in ('min', 'max') and not args:
            return E('lit', 'double', v=(2.2250738585072014e-308 if name == 'min' else 1.7976931348623157e308), text=('2.2250738585072014e-308' if name == 'min' else '1.7976931348623157e308'))
        if name in STD_FUNCS:
            self.count('R9' if name in ('min', 'max', 'swap') else 'R10')
            if name in ('min', 'max') and len(args) == 1 and args[0].k == 'seqctor':
                args = args[0].args
            return E('call', t, fn='std::' + name, kind='prim', args=args)
        if name in ('begin', 'end', 'cbegin', 'cend') and len(args) == 1 and is_seq(args[0].t):
            self.count('R8')
            return E('call', 'iter', fn='seq.' + name.lstrip('c'), kind='prim', args=args)
        if name == 'min' and not args:
            return E('lit', 'double', v=2.2250738585072014e-308, text='2.2250738585072014e-308')
        if name == 'max' and not args and t == 'double':
            return E('lit', 'double', v=1.7976931348623157e308, text='1.7976931348623157e308')
        if name == 'epsilon' and not args:
            return E('lit', 'double', v=2.220446049250313e-16, text='2.220446049250313e-16')
        return E('call', t, fn='ext:' + str(name), kind='ext', args=args)

    def x_LambdaExpr(self, n):
        self.count('R13')
        rec = None; caps = []
        for c in n.get('inner', []):
            if c.get('kind') == 'CXXRecordDecl': rec = c
        op = None
        fields = []
        for c in rec.get('inner', []):
            if c.get('kind') == 'CXXMethodDecl' and c.get('name') == 'operator()': op = c
            if c.get('kind') == 'FieldDecl': fields.append(c)
        inits = [c for c in n.get('inner', []) if c.get('kind') not in ('CXXRecordDecl', 'CompoundStmt')]
        cap_exprs = [self.expr(c) for c in inits]
        # capture fields are unnamed in the AST; inside the body a captured variable is referred to as $<declared name>
        def cap_name(c):
            stack = [c]
            if c.get('kind') == 'CXXThisExpr' or any(x.get('kind') == 'CXXThisExpr' for x in c.get('inner', [])): return 'this'
            while stack:
                y = stack.pop()
                rd = y.get('referencedDecl')
                if y.get('kind') == 'DeclRefExpr' and rd and rd.get('name'): return rd['name']
                stack.extend(reversed(y.get('inner', [])))
            return None
        names = [f.get('name') or cap_name(c) for f, c in zip(fields, inits)]
        if len(names) != len(cap_exprs) or any(nm is None for nm in names): raise Unsupported('lambda capture without a name')
        return E('lambda', 'lambda', op=op.get('mangledName'), captures=cap_exprs, fields=names, decl=op)

    def x_CXXMemberCallExpr_dummy(self, n): pass

    def x_UnaryExprOrTypeTraitExpr(self, n):
        raise Unsupported('sizeof')

    def x_CXXNewExpr(self, n): raise Unsupported('new')
    def x_CXXDeleteExpr(self, n): raise Unsupported('delete')
    def x_CXXThrowExpr(self, n): raise Unsupported('throw')


# ------------------------------------------------------------------ pretty printer (debug / evidence samples)

def pp_expr(e):
    k = e.k
    if k == 'lit': return getattr(e, 'text', None) or repr(e.v)
    if k == 'var': return e.name
    if k == 'field': return '%s.%s' % (pp_expr(e.base), e.name)
    if k == 'index': return '%s[%s]' % (pp_expr(e.base), pp_expr(e.idx))
    if k == 'un': return '%s(%s)' % (e.op, pp_expr(e.e))
    if k == 'bin': return '(%s %s %s)' % (pp_expr(e.l), e.op, pp_expr(e.r))
    if k == 'cast': return '(%s)%s' % (e.t, pp_expr(e.e))
    if k == 'cond': return '(%s ? %s : %s)' % (pp_expr(e.c), pp_expr(e.a), pp_expr(e.b))
    if k == 'len': return 'len(%s)' % pp_expr(e.seq)
    if k == 'call':
        fn = e.fn if isinstance(e.fn, str) else 'CB:' + pp_expr(e.fn)
        if e.kind == 'user': fn = e.name + '@' + e.fn[-12:]
        return '%s(%s)' % (fn, ', '.join(pp_expr(a) for a in e.args))
    if k == 'seqctor': return '%s.%s(%s)' % (e.t, e.form, ', '.join(pp_expr(a) for a in e.args))
    if k == 'recctor': return '%s{%s}' % (e.rec, ', '.join(pp_expr(a) for a in e.args))
    if k == 'str': return repr(e.v)
    if k == 'lambda': return 'lambda[%s]' % e.op
    return '<%s>' % k


def pp_stmts(ss, ind=0):
    out = []
    p = '  ' * ind
    for s in ss:
        k = s.k
        if k == 'decl': out.append('%s%s %s%s' % (p, s.t, s.name, '' if s.init is None else ' = ' + pp_expr(s.init)))
        elif k == 'assign': out.append('%s%s = %s' % (p, pp_expr(s.lhs), pp_expr(s.rhs)))
        elif k == 'if':
            out.append('%sif %s' % (p, pp_expr(s.cond))); out += pp_stmts(s.then, ind + 1)
            if s.els: out.append(p + 'else'); out += pp_stmts(s.els, ind + 1)
        elif k == 'loop':
            out.append('%sloop#%d while %s' % (p, s.ordinal, pp_expr(s.cond))); out += pp_stmts(s.body, ind + 1)
            if s.step: out.append(p + ' step'); out += pp_stmts(s.step, ind + 1)
        elif k == 'block': out += pp_stmts(s.body, ind)
        elif k == 'return': out.append('%sreturn %s' % (p, '' if s.e is None else pp_expr(s.e)))
        elif k == 'callstmt': out.append(p + pp_expr(s.call))
        elif k == 'output': out.append('%soutput(non_empty=%s)' % (p, s.non_empty))
        else: out.append(p + k)
    return out


def pp_func(f):
    hdr = '%s %s(%s)%s' % (f.ret, f.qual, ', '.join('%s%s %s' % (t, '&' if r else '', n) for n, t, r in f.params), ' const' if f.is_const else '')
    return '\n'.join([hdr] + pp_stmts(f.body, 1))


if __name__ == '__main__':
    import sys
    u = cast.Unit(sys.argv[1])
    tr = Translator(u)
    ok = 0; bad = 0
    for m in list(u.funcs):
        if len(sys.argv) > 2 and sys.argv[2] not in m and sys.argv[2] != u.funcs[m].get('name'): continue
        try:
            f = tr.func(m)
            ok += 1
            if len(sys.argv) > 2: print(pp_func(f)); print(f.rules)
        except Unsupported as ex:
            bad += 1
            print('UNSUPPORTED', u.funcs[m].get('name'), m[-30:], '--', ex)
    print('ok', ok, 'unsupported', bad)
