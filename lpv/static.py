"""static goals: facts read off the AST, plus synthesised contracts for user-provided copy operations."""
from . import cast, spec as SP, e2, ir as IR


def field_equalities(layout, rec, lhs, rhs):
    out = []
    for fn, ft in layout.fields(rec):
        a = '%s.%s' % (lhs, fn); b = '%s.%s' % (rhs, fn)
        if ft in e2.INTS or ft in ('bool', 'double'):
            out.append('%s == %s' % (a, b))
        elif IR.is_seq(ft) and IR.is_seq(IR.elem(ft)):
            out.append('len(%s) == len(%s)' % (a, b))
            out.append('forall(r, 0, len(%s), len(%s[r]) == len(%s[r]))' % (b, a, b))
            out.append('forall(r, 0, len(%s), forall(c, 0, len(%s[r]), %s[r][c] == %s[r][c]))' % (b, b, a, b))
        elif IR.is_seq(ft):
            out.append('len(%s) == len(%s)' % (a, b))
            out.append('forall(k, 0, len(%s), %s[k] == %s[k])' % (b, a, b))
        elif ft.startswith('rec:'):
            out += field_equalities(layout, ft[4:], a, b)
    return out


def hidden_randomness(goal, out):
    """static no_hidden_randomness:<src>:<name,name,...>  -- the named functions (all overloads) obtain randomness only
    through their generator parameter: no std::random_device, rand/srand/time, static local or namespace-scope variable."""
    _, src, names = goal['key'].split(':')
    u = cast.Unit(src)
    tr = IR.Translator(u)
    for m, d in u.funcs.items():
        if d.get('name') not in names.split(','): continue
        f = tr.func(m)
        bad = []
        def we(e):
            if isinstance(e, IR.E):
                if e.k == 'call' and isinstance(e.fn, str) and ('random_device' in e.fn or e.fn in ('ext:rand', 'ext:srand', 'ext:time', 'ext:random')):
                    bad.append('calls %s' % e.fn)
                if e.k == 'var' and getattr(e, 'glob', False): bad.append('reads/writes namespace-scope variable %s' % e.name)
                if e.k == 'decl' and getattr(e, 'static', False): bad.append('static local %s' % e.name)
                if e.k == 'decl' and e.t in ('prng',) : bad.append('constructs its own generator %s' % e.name)
                for v in e.__dict__.values():
                    if isinstance(v, IR.E): we(v)
                    elif isinstance(v, list):
                        for a in v: we(a)
        for s_ in f.body: we(s_)
        has_gen = any(pt == 'prng' for pn, pt, br in f.params)
        if not has_gen: bad.append('has no generator parameter')
        out['obligations'].append({'id': 'static:no_hidden_randomness:%s' % f.qual + m[-6:], 'kind': 'static-fact',
                                   'text': '%s takes randomness only from its generator parameter%s' % (f.qual, '' if not bad else ' -- VIOLATED: ' + '; '.join(sorted(set(bad)))),
                                   'verdict': 'proved' if not bad else 'failed', 'backend': 'ast-scan', 'seconds': 0.0, 'model': None, 'log': []})
    return out


def run_goal(goal):
    """static copy_semantics:<Rec>  -- copies of the record are memberwise: either the copy operations are implicit
    (memberwise by the language) or the user-provided ones are proved memberwise from their bodies."""
    out = {'obligations': [], 'error': None, 'static_failures': [], 'bounded': [], 'vacuous': [], 'info': {'function': goal['key'], 'modes': None, 'rules': None}}
    kind, _, recs = goal['key'].partition(':')
    if kind == 'no_hidden_randomness': return hidden_randomness(goal, out)
    if kind == 'units':
        from . import units
        return units.run_goal(goal)
    if kind != 'copy_semantics': raise RuntimeError('unknown static goal %s' % kind)
    units = cast.all_units()
    db = SP.load_all()
    V = e2.Verifier(units, db)
    for rec in recs.split(','):
        # value semantics (R17): a memberwise copy is an independent value only if no member points or refers into another object
        shared = [(fn, ft) for fn, ft in V.records.fields(rec) if ft.startswith('ptr<') or ft.startswith('iter') or (ft.startswith('other:') and ('*' in ft or '&' in ft))]
        out['obligations'].append({'id': 'static:copy_semantics:%s:no_pointer_members' % rec, 'kind': 'static-fact', 'text': 'no member of %s is a pointer, reference or iterator, so that a memberwise copy is an independent value%s' % (rec, ''.join('; member %s has type %s' % x for x in shared)),
                                   'verdict': 'failed' if shared else 'proved', 'backend': 'ast-scan', 'seconds': 0.0, 'model': None, 'log': []})
        user_ops = []
        for u in units:
            for m, d in u.funcs.items():
                ps = [p for p in d.get('inner', []) if p.get('kind') == 'ParmVarDecl']
                if d.get('isImplicit') or d.get('explicitlyDefaulted') == 'default': continue     # memberwise by the language
                if d.get('kind') == 'CXXConstructorDecl' and d.get('name') == rec and len(ps) == 1 and IR.node_ty(ps[0]) == 'rec:' + rec:
                    user_ops.append((m, 'copy constructor', ps[0].get('name') or 'arg0'))
                if d.get('kind') == 'CXXMethodDecl' and d.get('name') == 'operator=' and len(ps) == 1 and IR.node_ty(ps[0]) == 'rec:' + rec \
                        and V.records.layout.get(rec) is not None and d.get('_scope', '').endswith(rec):
                    user_ops.append((m, 'copy assignment', ps[0].get('name') or 'arg0'))
        seen = set()
        user_ops = [x for x in user_ops if not (x[0] in seen or seen.add(x[0]))]
        if not user_ops:
            out['obligations'].append({'id': 'static:copy_semantics:%s' % rec, 'kind': 'static-fact', 'text': 'copy operations of %s are implicit (memberwise by the language)' % rec,
                                       'verdict': 'proved', 'backend': 'ast-scan', 'seconds': 0.0, 'model': None, 'log': []})
            continue
        for m, what, pname in user_ops:
            fs = SP.FuncSpec(m)
            for n_, txt in enumerate(field_equalities(V.records, rec, 'self', pname)):
                fs.ensures.append(SP.Clause('ensures', db.expand(SP.parse_expr(txt)), txt, None, 'memberwise', 0))
            fs.assigns = None
            db.funcs[m + '~copy'] = fs
            V.verify_function(m + '~copy')
    obs = V.discharge_all()
    for ob in obs:
        r = ob.result
        out['obligations'].append({'id': ob.id, 'kind': ob.kind, 'text': ob.text, 'verdict': r['verdict'], 'backend': r['backend'], 'seconds': r['seconds'], 'model': r.get('model'), 'log': r.get('log')})
    return out
