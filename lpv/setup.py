"""setup: check the tools this framework needs; nothing is fetched or built from the network."""
import shutil, sys, os
def main():
    missing = [t for t in ('clang++', 'g++', 'cbmc', 'goto-cc', 'goto-instrument') if shutil.which(t) is None]
    try:
        import z3
    except Exception:
        missing.append('z3 python module (python3-vt)')
    os.makedirs('/verif/build', exist_ok=True)
    if missing:
        print('missing tools:', missing); return 1
    print('lpv setup ok'); return 0
if __name__ == '__main__':
    sys.exit(main())
