// C14: a Monte-Carlo integration gives the same kind of result whatever integrations ran before it: constants are integrated
// exactly (to rounding) by every method, also right after an adaptive run on a sharply peaked integrand of the same dimension.
#include "harness.hpp"
#include "libphysica/Integration.hpp"
#include <cmath>
#include <vector>
using namespace libphysica;
int main()
{
	int bad = 0;
	std::function<double(std::vector<double>&, const double)> c3 = [](std::vector<double>&, const double) { return 3.0; };
	std::function<double(std::vector<double>&, const double)> peak = [](std::vector<double>& x, const double) { return std::exp(-((x[0] - 0.2) * (x[0] - 0.2) + (x[1] - 0.7) * (x[1] - 0.7)) / (2 * 0.01 * 0.01)); };
	const char* methods[] = {"Vegas", "Miser", "Monte-Carlo"};
	for(const char* m : methods)
	{
		std::vector<double> reg = {1.0, -2.0, 3.0, 0.5}, unit = {0.0, 0.0, 1.0, 1.0};
		double before = Integrate_MC(c3, reg, 1000, m);
		Integrate_MC(peak, unit, 20000, m);
		double after = Integrate_MC(c3, reg, 1000, m);
		for(double v : {before, after})
		{
			bool ok = std::isfinite(v) && std::fabs(v - 15.0) <= 1e-9 * 15.0;
			printf("OBSERVED %s: constant 3 over [1,3]x[-2,0.5] %s the peaked run = %.12g%s\n", m, v == before ? "before" : "after", v, ok ? "" : "  ** VIOLATES the property **");
			if(!ok) bad++;
		}
	}
	// ... also right after a run of higher dimension over a region whose extra axes are not of unit width
	for(const char* m : methods)
	{
		std::function<double(std::vector<double>&, const double)> c1 = [](std::vector<double>&, const double) { return 1.0; };
		std::vector<double> box6 = {0.0, 0.0, 0.0, 0.0, 0.0, 0.0, 0.1, 0.5, 10.0, 0.5, 10.0, 2.0}, reg2 = {0.0, 0.0, 1.0, 1.0}, reg1 = {2.0, 2.5};
		Integrate_MC(c1, box6, 2000, m);
		double v2 = Integrate_MC(c1, reg2, 1000, m), v1 = Integrate_MC(c1, reg1, 1000, m);
		bool ok = std::isfinite(v2) && std::isfinite(v1) && std::fabs(v2 - 1.0) <= 1e-9 && std::fabs(v1 - 0.5) <= 1e-9;
		printf("OBSERVED %s after a six-dimensional run: constant 1 over the unit square = %.12g, over [2,2.5] = %.12g%s\n", m, v2, v1, ok ? "" : "  ** VIOLATES the property **");
		if(!ok) bad++;
	}
	// Miser on an off-centre narrow peak: the estimate is a finite number
	std::vector<double> unit = {0.0, 0.0, 1.0, 1.0};
	std::function<double(std::vector<double>&, const double)> narrow = [](std::vector<double>& x, const double) { return std::exp(-((x[0] - 0.2) * (x[0] - 0.2) + (x[1] - 0.3) * (x[1] - 0.3)) / (2 * 0.02 * 0.02)); };
	double v = Integrate_MC(narrow, unit, 100000, "Miser");
	bool ok = std::isfinite(v);
	printf("OBSERVED Miser on an off-centre narrow Gaussian = %.6g%s\n", v, ok ? "" : "  ** VIOLATES the property **");
	if(!ok) bad++;
	printf(bad ? "REPRODUCED %d\n" : "NOT-REPRODUCED\n", bad);
	return 0;
}
