// C17: Round(x,d) is odd, idempotent, monotone and within half a unit of the d-th significant digit of x, for d = 1..7, over many
// decades, exact ties (trailing 5) and values next to powers of ten included.
#include "harness.hpp"
#include <cmath>
#include <vector>
#include "libphysica/Special_Functions.hpp"
using namespace libphysica;
static int shown = 0;
static void bad(const char* law, double x, unsigned d, double got, double other)
{
	if(shown++ < 12) printf("OBSERVED %s at x = %.17g, d = %u: %.17g vs %.17g  ** VIOLATES the property **\n", law, x, d, got, other);
	g_viol++;
}
int main()
{
	std::vector<double> mantissas = {1.0, 1.25, 1.5, 2.5, 3.5, 0.15, 0.25, 0.35, 4.5, 1.05, 1.15, 2.25, 7.5, 9.5, 9.95, 9.995, 3.14159265358979, 2.71828182845905, 6.02214076, 9.99999949, 9.9999995, 1.00000049, 5.0, 8.75};
	std::vector<double> xs;
	for(int e = -300; e <= 300; e += 7)
		for(double m : mantissas)
			xs.push_back(m * std::pow(10.0, e));
	for(int e = -12; e <= 12; e++)
	{
		double p = std::pow(10.0, e);
		xs.push_back(p); xs.push_back(std::nextafter(p, 0.0)); xs.push_back(std::nextafter(p, 2 * p));
	}
	long n = 0;
	for(unsigned d = 1; d <= 7; d++)
		for(double x : xs)
		{
			double r = Round(x, d), rn = Round(-x, d);
			n++;
			if(rn != -r) bad("odd: Round(-x,d) == -Round(x,d)", x, d, rn, -r);
			double rr = Round(r, d);
			if(std::fabs(rr - r) > 4e-16 * std::fabs(r)) bad("idempotent: Round(Round(x,d),d) == Round(x,d)", x, d, rr, r);
			double unit = std::pow(10.0, std::floor(std::log10(std::fabs(x))) - (double) d + 1.0);
			if(std::fabs(r - x) > 0.5 * unit + 8e-16 * std::fabs(x)) bad("within half a unit of the d-th digit", x, d, r, x);
		}
	// monotone: x <= y implies Round(x,d) <= Round(y,d), on neighbouring grid points of one decade and across a decade border
	for(unsigned d = 1; d <= 7; d++)
		for(int e = -30; e <= 30; e += 3)
		{
			double prev = 0.0, prev_x = 0.0;
			for(int k = 0; k <= 2000; k++)
			{
				double x = (0.95 + k * 0.0055) * std::pow(10.0, e);
				double r = Round(x, d);
				n++;
				if(k > 0 && r < prev * (1.0 - 4e-16)) bad("monotone: x <= y gives Round(x,d) <= Round(y,d)", x, d, r, prev);
				prev = r; prev_x = x;
			}
			(void) prev_x;
		}
	printf("OBSERVED %ld evaluations of Round\n", n);
	return finish();
}
