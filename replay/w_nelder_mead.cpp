// C11: Minimization::minimize (all three overloads) returns a point whose objective value is not worse than the best vertex of the
// initial simplex {s, s + delta_j e_j}, and the state it reports (fmin, best-first simplex and vertex values) is the objective
// evaluated at the returned point; dimensions 1..6, bowls and a multimodal objective, starting points away from the origin.
#include "harness.hpp"
#include <cmath>
#include <vector>
#include <functional>
#include "libphysica/Numerics.hpp"
using namespace libphysica;
static int shown = 0;
#define BADF(...) { if(shown++ < 12) { printf("OBSERVED "); printf(__VA_ARGS__); printf("  ** VIOLATES the property **\n"); } g_viol++; }
int main()
{
	long n = 0;
	for(int dim = 1; dim <= 6; dim++)
		for(int obj = 0; obj < 3; obj++)
			for(double scale : {1e-2, 0.5, 3.0})
				for(double shift : {0.0, 2.5, -40.0, 1e300})	// 1e300: the starting coordinates equal the displacements
				{
					std::vector<double> centre(dim), cond(dim);
					for(int j = 0; j < dim; j++) { centre[j] = 1.0 + 0.5 * j; cond[j] = std::pow(10.0, 2.0 * j / std::max(1, dim - 1)); }
					std::function<double(std::vector<double>)> f = [=](std::vector<double> x) {
						double s = 0.0;
						for(int j = 0; j < dim; j++) s += cond[j] * (x[j] - centre[j]) * (x[j] - centre[j]);
						if(obj == 1) return std::sqrt(1.0 + s);
						if(obj == 2) return s + 3.0 * std::sin(5.0 * x[0]) + 3.0;
						return s + 0.25;
					};
					std::vector<double> start(dim), deltas(dim);
					for(int j = 0; j < dim; j++) { deltas[j] = scale * (1.0 + 0.5 * j); start[j] = (shift == 1e300) ? deltas[j] : shift + 0.3 * j; }
					double best0 = f(start);
					std::vector<std::vector<double>> simplex(dim + 1, start);
					for(int j = 0; j < dim; j++) { simplex[j + 1][j] += deltas[j]; best0 = std::min(best0, f(simplex[j + 1])); }
					for(int overload = 0; overload < 3; overload++)
					{
						if(overload == 0 && dim > 1) continue;	  // the scalar-delta overload has one delta for every direction: its own simplex below
						Minimization M(1e-10);
						std::vector<double> s0 = start, d0 = deltas;
						std::vector<std::vector<double>> p0 = simplex;
						std::vector<double> r;
						double bound = best0;
						if(overload == 0) { r = M.minimize(s0, deltas[0], f); }
						else if(overload == 1) r = M.minimize(s0, d0, f);
						else r = M.minimize(p0, f);
						n++;
						double fr = f(r);
						if((int) r.size() != dim) { BADF("minimize (overload %d, dim %d): result has %zu coordinates", overload, dim, r.size()); continue; }
						if(fr > bound * (1.0 + 1e-12) + 1e-300) BADF("minimize (overload %d, dim %d, objective %d, scale %g, start %g): f(result) = %.12g is worse than the best vertex of the initial simplex %.12g", overload, dim, obj, scale, shift, fr, bound);
						if(M.fmin != fr) BADF("minimize (overload %d, dim %d): fmin = %.17g is not the objective at the returned point %.17g", overload, dim, M.fmin, fr);
						if(M.y.empty() || M.y[0] != M.fmin || M.current_simplex.empty() || M.current_simplex[0] != r) BADF("minimize (overload %d, dim %d): the reported simplex is not best-first at the returned point", overload, dim);
						for(size_t i = 0; i < M.y.size() && i < M.current_simplex.size(); i++)
							if(M.y[i] != f(M.current_simplex[i])) { BADF("minimize (overload %d, dim %d): y[%zu] is not the objective at vertex %zu", overload, dim, i, i); break; }
					}
				}
	printf("OBSERVED %ld minimisations\n", n);
	return finish();
}
