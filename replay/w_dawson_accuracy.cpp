// C17: Inv_Erf is accurate to 1e-4 on (-1,1) up to 1 - 1e-12; Dawson_Integral is odd and accurate to 2e-7 absolutely, Erfi to 1e-6 relatively, for |x| <= 30 and on both sides of the
// series / sampling-sum switch at |x| = 0.2 (reference: the defining integral by composite Gauss-Legendre quadrature in long double).
#include "harness.hpp"
#include <cmath>
#include <vector>
#include "libphysica/Special_Functions.hpp"
using namespace libphysica;
static long double dawson_ref(long double x)
{
	// F(x) = int_0^x exp(t^2 - x^2) dt, 5-point Gauss-Legendre on panels of width <= 0.05 (integrand entire, error far below 1e-15)
	static const long double n[5] = {-0.9061798459386639928L, -0.5384693101056830910L, 0.0L, 0.5384693101056830910L, 0.9061798459386639928L};
	static const long double w[5] = {0.2369268850561890875L, 0.4786286704993664680L, 0.5688888888888888889L, 0.4786286704993664680L, 0.2369268850561890875L};
	long double ax = fabsl(x), s = 0.0L;
	int panels = (int) ceill(ax / 0.05L);
	if(panels < 1) panels = 1;
	long double h = ax / panels;
	for(int p = 0; p < panels; p++)
	{
		long double a = p * h;
		if(ax * ax - (a + h) * (a + h) > 60.0L) continue;	// contributes less than exp(-60)
		for(int k = 0; k < 5; k++)
		{
			long double t = a + 0.5L * h * (1.0L + n[k]);
			s += 0.5L * h * w[k] * expl(t * t - ax * ax);
		}
	}
	return x < 0 ? -s : s;
}
int main()
{
	int shown = 0; long cnt = 0;
	std::vector<double> xs;
	for(double x = 0.0; x <= 30.0; x += 0.0137) xs.push_back(x);
	for(double x : {0.19, 0.199, 0.1999999, 0.2, 0.2000001, 0.201, 0.21, 0.3, 0.4, 0.44, 0.45, 0.5, 1e-8, 1e-3, 29.999, 30.0}) xs.push_back(x);
	for(double x : xs)
		for(int sgn = 0; sgn < 2; sgn++)
		{
			double y = sgn ? -x : x;
			double d = Dawson_Integral(y);
			long double ref = dawson_ref(y);
			cnt++;
			if(fabsl(d - ref) > 2e-7L) { if(shown++ < 8) printf("OBSERVED Dawson_Integral(%.9g) = %.12g, reference %.12Lg (error %.3Lg > 2e-7)  ** VIOLATES the property **\n", y, d, ref, fabsl(d - ref)); g_viol++; }
			if(Dawson_Integral(-y) != -d) { if(shown++ < 8) printf("OBSERVED Dawson_Integral is not odd at %.9g  ** VIOLATES the property **\n", y); g_viol++; }
			if(x <= 26.0 && x > 0)
			{
				double e = Erfi(y);
				long double eref = 2.0L / sqrtl(acosl(-1.0L)) * expl((long double) y * y) * ref;
				if(fabsl(e - eref) > 1e-6L * fabsl(eref)) { if(shown++ < 8) printf("OBSERVED Erfi(%.9g) = %.12g, reference %.12Lg (relative error %.3Lg > 1e-6)  ** VIOLATES the property **\n", y, e, eref, fabsl(e - eref) / fabsl(eref)); g_viol++; }
			}
		}
	// Inv_Erf: |Inv_Erf(p) - erfinv(p)| <= 1e-4 on (-1,1) up to 1 - 1e-12 (reference: Newton's iteration on erfl / erfcl in long double)
	{
		std::vector<double> qs;	  // q = 1 - |p|
		for(double q = 0.999; q > 1e-3; q *= 0.93) qs.push_back(q);
		for(double q = 1e-3; q >= 1e-12; q *= 0.71) qs.push_back(q);
		for(double q : {5.6e-4, 1.5e-12, 5e-12, 1.45e-11, 1e-12}) qs.push_back(q);
		for(double q : qs)
			for(int sgn = 0; sgn < 2; sgn++)
			{
				double pp = sgn ? -(1.0 - q) : (1.0 - q);
				long double qq = 1.0L - fabsl((long double) pp);	  // the tail actually represented by the double argument
				long double x = sqrtl(fmaxl(0.0L, -logl(qq * (2.0L - qq)))) * 0.9L + 0.1L;
				for(int it = 0; it < 200; it++)
				{
					long double fx = erfcl(x) - qq, d = -2.0L / sqrtl(acosl(-1.0L)) * expl(-x * x);
					long double step = fx / d;
					x -= step;
					if(x < 0) x = 0;
					if(fabsl(step) < 1e-17L * (1.0L + x)) break;
				}
				long double ref = sgn ? -x : x;
				double got = Inv_Erf(pp);
				cnt++;
				if(fabsl(got - ref) > 1e-4L) { if(shown++ < 8) printf("OBSERVED Inv_Erf(%.17g) = %.9g, reference %.9Lg (error %.3Lg > 1e-4)  ** VIOLATES the property **\n", pp, got, ref, fabsl(got - ref)); g_viol++; }
			}
	}
	printf("OBSERVED %ld arguments\n", cnt);
	return finish();
}
