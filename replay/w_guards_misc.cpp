// C10: guards that are switch defaults, helper predicates and the table constructor of Interpolation: the rejected side stops
// with a diagnostic, the accepted side next to it returns.
#include "harness.hpp"
#include <vector>
#include <complex>
#include "libphysica/Special_Functions.hpp"
#include "libphysica/Numerics.hpp"
#include "libphysica/Statistics.hpp"
#include "libphysica/Utilities.hpp"
using namespace libphysica;
#define BAD(name, stmt) { Outcome o = run_child([&]() { stmt; }); report(name, o, violates_meaningless(o)); }
#define GOOD(name, stmt) { Outcome o = run_child([&]() { stmt; }); report(name, o, violates_meaningful(o)); }
int main()
{
	for(int c = 0; c <= 2; c++)
	{
		GOOD("VSH_Y_Component, component in 0..2", volatile double v = std::abs(VSH_Y_Component(c, 2, 1, 3, 1)); (void) v);
		GOOD("VSH_Psi_Component, component in 0..2", volatile double v = std::abs(VSH_Psi_Component(c, 2, 1, 3, 1)); (void) v);
	}
	BAD("VSH_Y_Component, component 3", volatile double v = std::abs(VSH_Y_Component(3, 2, 1, 3, 1)); printf("%g\n", (double) v));
	BAD("VSH_Y_Component, component -1", volatile double v = std::abs(VSH_Y_Component(-1, 2, 1, 3, 1)); printf("%g\n", (double) v));
	BAD("VSH_Psi_Component, component 3", volatile double v = std::abs(VSH_Psi_Component(3, 2, 1, 3, 1)); printf("%g\n", (double) v));
	BAD("VSH_Psi_Component, component -1", volatile double v = std::abs(VSH_Psi_Component(-1, 2, 1, 3, 1)); printf("%g\n", (double) v));
	GOOD("Check_For_Error(false)", Check_For_Error(false, "f()", "message"));
	BAD("Check_For_Error(true)", Check_For_Error(true, "f()", "message"); printf("returned\n"));
	GOOD("PMF_Binomial(5, 0, 2), PMF_Binomial(5, 1, 2)", volatile double v = PMF_Binomial(5, 0.0, 2) + PMF_Binomial(5, 1.0, 2); (void) v);
	BAD("PMF_Binomial(5, 1.0000001, 2)", volatile double v = PMF_Binomial(5, 1.0000001, 2); printf("%g\n", (double) v));
	BAD("PMF_Binomial(5, -1e-9, 2)", volatile double v = PMF_Binomial(5, -1e-9, 2); printf("%g\n", (double) v));
	{
		Outcome o = run_child([&]() { volatile double v = PMF_Binomial(3, 0.5, 4); if(v != 0.0) { printf("PMF_Binomial(3, 0.5, 4) = %g\n", (double) v); fflush(stdout); _exit(7); } });
		report("PMF_Binomial is zero beyond the number of trials", o, violates_meaningful(o));
	}
	std::vector<std::vector<double>> ok = {{0, 1}, {1, 3}, {2, 2}, {3, 5}};
	GOOD("Interpolation from a table of four (x, f) rows", Interpolation I(ok); volatile double v = I(1.5); (void) v);
	std::vector<std::vector<double>> three_columns = {{0, 1, 7}, {1, 3, 7}, {2, 2, 7}, {3, 5, 7}};
	BAD("Interpolation from rows of three numbers", Interpolation I(three_columns); printf("%g\n", I(1.5)));
	std::vector<std::vector<double>> one_column = {{0}, {1}, {2}, {3}};
	BAD("Interpolation from rows of one number", Interpolation I(one_column); printf("%g\n", I(1.5)));
	std::vector<std::vector<double>> one_long_row = {{0, 1}, {1, 3}, {2, 2, 9}, {3, 5}};
	BAD("Interpolation from a table with one long row", Interpolation I(one_long_row); printf("%g\n", I(1.5)));
	std::vector<std::vector<double>> two_rows = {{0, 1}, {1, 3}};
	BAD("Interpolation from a table of two rows", Interpolation I(two_rows); printf("%g\n", I(0.5)));
	std::vector<std::vector<double>> unsorted = {{0, 1}, {2, 3}, {1, 2}, {3, 5}};
	BAD("Interpolation from a table with unsorted abscissae", Interpolation I(unsorted); printf("%g\n", I(0.5)));
	return finish();
}
