// C04 / C10: the block constructor places every block at the offset given by the blocks before it (row and column partitions that
// differ included); an empty grid of blocks is the empty matrix and is never indexed.
#include "harness.hpp"
#include "libphysica/Linear_Algebra.hpp"
#include <vector>
using namespace libphysica;
static Matrix gen(unsigned r, unsigned c, double base) { Matrix M(r, c); for(unsigned i = 0; i < r; i++) for(unsigned j = 0; j < c; j++) M[i][j] = base + 10 * i + j; return M; }
int main()
{
	int bad = 0;
	unsigned hs[][3] = {{1, 1, 0}, {2, 3, 0}, {1, 2, 2}}, ws[][3] = {{2, 1, 0}, {1, 3, 2}, {3, 1, 1}};
	for(auto& h : hs) for(auto& w : ws)
	{
		std::vector<std::vector<Matrix>> g; unsigned nr = h[2] ? 3 : 2, nc = w[2] ? 3 : 2;
		for(unsigned br = 0; br < nr; br++) { std::vector<Matrix> row; for(unsigned bc = 0; bc < nc; bc++) row.push_back(gen(h[br], w[bc], 1000 * (br + 1) + 100 * (bc + 1))); g.push_back(row); }
		Outcome o = run_child([&]() {
			Matrix M(g);
			unsigned ro = 0;
			for(unsigned br = 0; br < nr; br++) { unsigned co = 0; for(unsigned bc = 0; bc < nc; bc++) { for(unsigned i = 0; i < h[br]; i++) for(unsigned j = 0; j < w[bc]; j++) if(M[ro + i][co + j] != g[br][bc][i][j]) { printf("misplaced block (%u,%u) entry (%u,%u): %g instead of %g\n", br, bc, i, j, M[ro + i][co + j], g[br][bc][i][j]); return; } co += w[bc]; } ro += h[br]; }
		});
		if(!o.returned_normally || o.text.find("misplaced") != std::string::npos) { printf("OBSERVED heights (%u,%u,%u) widths (%u,%u,%u): %s %s  ** VIOLATES the property **\n", h[0], h[1], h[2], w[0], w[1], w[2], kind(o), o.text.substr(0, 120).c_str()); bad++; }
	}
	Outcome e = run_child([&]() { std::vector<std::vector<Matrix>> none; Matrix M(none); printf("rows=%u\n", M.Rows()); });
	report("Matrix(empty grid of blocks)", e, violates_meaningful(e)); bad += g_viol;
	printf(bad ? "REPRODUCED %d\n" : "NOT-REPRODUCED\n", bad);
	return 0;
}
