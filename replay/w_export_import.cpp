// C20: data written by Export_List / Export_Table / Export_Function and read back by Import_List / Import_Table (with the number of
// header lines that were written passed as ignored_initial_lines, with and without unit factors) has the same shape and the same
// values to six significant digits; exporting to an existing file replaces its content.
#include "harness.hpp"
#include <cmath>
#include <vector>
#include <string>
#include <cstdlib>
#include <unistd.h>
#include "libphysica/Utilities.hpp"
using namespace libphysica;
static int shown = 0;
#define BADF(...) { if(shown++ < 10) { printf("OBSERVED "); printf(__VA_ARGS__); printf("  ** VIOLATES the property **\n"); } g_viol++; }
static bool close6(double a, double b) { return std::fabs(a - b) <= 6e-6 * std::max(std::fabs(a), std::fabs(b)) || (a == 0 && b == 0); }
static unsigned lines_of(const std::string& h) { if(h.empty()) return 0; unsigned n = 1; for(char c : h) if(c == '\n') n++; return n; }
int main()
{
	char tmpl[] = "/var/tmp/lpv_io_XXXXXX";
	char* dir = mkdtemp(tmpl);
	if(!dir) { printf("no scratch directory\n"); return 3; }
	std::string d(dir);
	std::vector<std::string> headers = {"", "# one line", "# first\n# second", "# Results of run 17\n\n# x\ty\tz", "# ends in a newline\n"};
	std::vector<double> list = {1.0, -2.5, 3.14159265358979, 6.02214076e23, 1.602176634e-19, 0.0, 123456.7};
	std::vector<std::vector<double>> table = {{1.0, 2.0, 3.0}, {-4.5, 5.25e10, 6.125e-7}, {7.0, 8.0, 9.0}, {0.001, -0.002, 1234567.0}};
	int k = 0;
	for(const std::string& h : headers)
		for(int units = 0; units < 2; units++)
		{
			std::string fl = d + "/list" + std::to_string(k) + ".txt", ft = d + "/table" + std::to_string(k) + ".txt", ff = d + "/func" + std::to_string(k) + ".txt";
			k++;
			Outcome o = run_child([&]() {
			double u = units ? 2.5e-3 : 1.0;
			std::vector<double> dims = units ? std::vector<double> {2.5e-3, 4.0, 1e6} : std::vector<double> {};
			Export_List(fl, list, u, h);
			std::vector<double> back = Import_List(fl, u, lines_of(h));
			if(back.size() != list.size()) { BADF("list with a header of %u lines, unit %g: exported %zu values, imported %zu", lines_of(h), u, list.size(), back.size()); }
			else for(size_t i = 0; i < list.size(); i++) if(!close6(list[i], back[i])) { BADF("list value %zu: exported %.9g, imported %.9g", i, list[i], back[i]); break; }
			Export_Table(ft, table, dims, h);
			Export_Table(ft, table, dims, h);	  // a second export to the same file replaces the first
			std::vector<std::vector<double>> tb = Import_Table(ft, dims, lines_of(h));
			if(tb.size() != table.size() || tb.empty() || tb[0].size() != table[0].size()) { BADF("table with a header of %u lines%s: exported %zu x %zu, imported %zu x %zu", lines_of(h), units ? " and unit factors" : "", table.size(), table[0].size(), tb.size(), tb.empty() ? 0 : tb[0].size()); }
			else for(size_t i = 0; i < table.size(); i++) for(size_t j = 0; j < table[i].size(); j++) if(!close6(table[i][j], tb[i][j])) { BADF("table value (%zu,%zu): exported %.9g, imported %.9g", i, j, table[i][j], tb[i][j]); i = table.size() - 1; break; }
			std::vector<double> xs = {0.5, 1.0, 2.0, 4.0, 8.0};
			std::vector<double> fdims = units ? std::vector<double> {2.5e-3, 4.0} : std::vector<double> {};
			Export_Function(ff, [](double x) { return 1.0 / x + x * x; }, xs, fdims, h);
			std::vector<std::vector<double>> fb = Import_Table(ff, fdims, lines_of(h));
			if(fb.size() != xs.size() || fb.empty() || fb[0].size() != 2) { BADF("function table with a header of %u lines: exported %zu x 2, imported %zu x %zu", lines_of(h), xs.size(), fb.size(), fb.empty() ? 0 : fb[0].size()); }
			else for(size_t i = 0; i < xs.size(); i++) if(!close6(fb[i][0], xs[i]) || !close6(fb[i][1], 1.0 / xs[i] + xs[i] * xs[i])) { BADF("function table row %zu: (%.9g, %.9g) for x = %g", i, fb[i][0], fb[i][1], xs[i]); break; }
			});
			// the child prints its observations; a round trip that ends the process is a violation as well
			size_t pos = 0; int nv = 0;
			while((pos = o.text.find("VIOLATES", pos)) != std::string::npos) { nv++; pos += 8; }
			if(!o.text.empty() && shown < 10) { printf("%s", o.text.c_str()); shown += nv; }
			g_viol += nv;
			if(!o.returned_normally) { printf("OBSERVED round trip with a header of %u lines%s ended the process (%s): %s  ** VIOLATES the property **\n", lines_of(h), units ? " and unit factors" : "", kind(o), o.text.substr(0, 120).c_str()); g_viol++; }
		}
	std::string cmd = "rm -rf " + d;
	if(system(cmd.c_str()) != 0) printf("scratch directory not removed\n");
	printf("OBSERVED %d round trips\n", 3 * k);
	return finish();
}
