// C03: adaptive Simpson returns the exact integral of every polynomial of degree <= 5 for any epsilon and depth, swapping the limits
// negates the result exactly, the sign of epsilon is irrelevant, and the number of evaluations is bounded by the depth.
#include "harness.hpp"
#include "libphysica/Integration.hpp"
#include <cmath>
using namespace libphysica;
int main()
{
	int bad = 0;
	auto P = [](double x) { return 3 * x * x * x * x * x - 2 * x * x * x * x + x * x * x - 7 * x * x + 0.5 * x + 11; };
	auto A = [](double x) { return 0.5 * std::pow(x, 6) - 0.4 * std::pow(x, 5) + 0.25 * std::pow(x, 4) - 7.0 / 3 * x * x * x + 0.25 * x * x + 11 * x; };
	double lims[][2] = {{0, 1}, {-2, 3}, {1.5, -0.5}, {10, 10.001}};
	for(auto& l : lims) for(double eps : {1e-3, 1e-9, 10.0, -1e-6}) for(int depth : {1, 3, 20})
	{
		double v = Integrate(P, l[0], l[1], eps, depth), ex = A(l[1]) - A(l[0]);
		bool ok = std::fabs(v - ex) <= 1e-10 * std::max(1.0, std::fabs(ex));
		if(!ok) { printf("OBSERVED quintic on [%g,%g], eps %g, depth %d: %.15g, exact %.15g  ** VIOLATES the property **\n", l[0], l[1], eps, depth, v, ex); bad++; }
	}
	auto g = [](double x) { return std::exp(-x * x) * std::sin(5 * x); };
	for(int depth : {2, 6, 20}) for(double eps : {1e-4, 1e-10})
	{
		long n1 = 0, n2 = 0;
		auto c1 = [&](double x) { n1++; return g(x); }; auto c2 = [&](double x) { n2++; return g(x); };
		double fwd = Integrate(c1, 0.3, 2.7, eps, depth), rev = Integrate(c2, 2.7, 0.3, eps, depth), neg = Integrate(g, 0.3, 2.7, -eps, depth);
		long cap = (1L << (depth + 2)) + 1;
		bool ok = fwd == -rev && n1 == n2 && neg == fwd && n1 <= cap;
		printf("OBSERVED depth %d eps %g: forward %.15g (%ld evaluations), reversed %.15g (%ld), negative epsilon %.15g, cap %ld%s\n", depth, eps, fwd, n1, rev, n2, neg, cap, ok ? "" : "  ** VIOLATES the property **");
		if(!ok) bad++;
	}
	// error request: for integrands whose fourth derivative keeps one sign and varies by at most a factor four over the interval the
	// absolute error is at most four times epsilon (whatever the size of the integral), unless the depth limit was hit
	for(double amp : {1.0, 1e3, 1e6}) for(double eps : {1e-3, 1e-6, 1e-9}) for(int which = 0; which < 2; which++)
	{
		auto f = [&](double x) { return which ? amp * std::cosh(x) : amp * std::exp(x); };
		double exact = which ? amp * std::sinh(1.0) : amp * (std::exp(1.0) - 1.0);
		double v = Integrate(f, 0.0, 1.0, eps, 40);
		double allowed = 4.0 * eps + 8e-16 * std::fabs(exact) * 50;
		bool ok = std::fabs(v - exact) <= allowed;
		if(!ok) { printf("OBSERVED %g * %s on [0,1] with epsilon %g: %.15g, exact %.15g, error %.3g > 4 epsilon  ** VIOLATES the property **\n", amp, which ? "cosh" : "exp", eps, v, exact, std::fabs(v - exact)); bad++; }
	}
	printf(bad ? "REPRODUCED %d\n" : "NOT-REPRODUCED\n", bad);
	return 0;
}
