// C19: Workload_Distribution returns workers+1 non-decreasing indices from 0 to tasks whose consecutive differences differ by at most
// one (exhaustive for 1..128 workers, 0..1024 tasks); Range enumerates the half-open integer range (all pairs in [-40,40], steps 1..40);
// Linear_Space / Log_Space return the requested number of points from min to max, strictly monotone and equally spaced (in the
// logarithm); Locate_Closest_Location returns an index of an element nearest to the target (ties, targets below and above included).
#include "harness.hpp"
#include <cmath>
#include <vector>
#include <algorithm>
#include "libphysica/Utilities.hpp"
using namespace libphysica;
static int shown = 0;
#define BADF(...) { if(shown++ < 12) { printf("OBSERVED "); printf(__VA_ARGS__); printf("  ** VIOLATES the property **\n"); } g_viol++; }
int main()
{
	long n = 0;
	for(unsigned w = 1; w <= 128; w++)
		for(unsigned t = 0; t <= 1024; t++)
		{
			std::vector<int> v = Workload_Distribution(w, t);
			n++;
			bool ok = v.size() == w + 1 && v.front() == 0 && v.back() == (int) t;
			int lo = 1 << 30, hi = -(1 << 30);
			for(size_t i = 0; ok && i + 1 < v.size(); i++)
			{
				int d = v[i + 1] - v[i];
				if(d < 0) ok = false;
				lo = std::min(lo, d); hi = std::max(hi, d);
			}
			if(ok && hi - lo > 1) ok = false;
			if(!ok) BADF("Workload_Distribution(%u, %u): not a balanced partition of 0..tasks (size %zu, last %d, shares %d..%d)", w, t, v.size(), v.empty() ? -1 : v.back(), lo, hi);
		}
	for(int a = -40; a <= 40; a++)
		for(int b = -40; b <= 40; b++)
			for(int s = 1; s <= 40; s += (s < 5 ? 1 : 7))
			{
				std::vector<int> r = Range(a, b, s);
				n++;
				std::vector<int> want;
				if(a < b) for(int i = a; i < b; i += s) want.push_back(i);
				if(a > b) for(int i = a; i > b; i -= s) want.push_back(i);
				if(r != want) BADF("Range(%d, %d, %d): %zu entries, expected %zu", a, b, s, r.size(), want.size());
			}
	for(unsigned steps = 0; steps <= 2000; steps += (steps < 12 ? 1 : 97))
		for(int o = 0; o < 2; o++)
		{
			double lo = o ? 7.5 : -2.0, hi = o ? -2.0 : 7.5;
			std::vector<double> v = Linear_Space(lo, hi, steps);
			n++;
			if(steps < 2) { if(v.size() != 1 || v[0] != lo) BADF("Linear_Space(%g, %g, %u): degenerate case returns %zu points", lo, hi, steps, v.size()); continue; }
			bool ok = v.size() == steps && v.front() == lo && std::fabs(v.back() - hi) <= 1e-12 * std::fabs(hi - lo);
			double h = (hi - lo) / (steps - 1.0);
			for(size_t i = 0; ok && i + 1 < v.size(); i++)
				if(std::fabs((v[i + 1] - v[i]) - h) > 1e-9 * std::fabs(h) || (v[i + 1] - v[i]) * h <= 0) ok = false;
			if(!ok) BADF("Linear_Space(%g, %g, %u): not %u equally spaced strictly monotone points from min to max", lo, hi, steps, steps);
			double llo = o ? 1e5 : 1e-3, lhi = o ? 1e-3 : 1e5;
			std::vector<double> g = Log_Space(llo, lhi, steps);
			ok = g.size() == steps && std::fabs(g.front() - llo) <= 1e-12 * llo && std::fabs(g.back() - lhi) <= 1e-9 * lhi;
			double q = std::pow(lhi / llo, 1.0 / (steps - 1.0));
			for(size_t i = 0; ok && i + 1 < g.size(); i++)
				if(std::fabs(g[i + 1] / g[i] - q) > 1e-9 * q || (g[i + 1] - g[i]) * (lhi - llo) <= 0) ok = false;
			if(!ok) BADF("Log_Space(%g, %g, %u): not %u points equally spaced in the logarithm from min to max", llo, lhi, steps, steps);
		}
	{
		std::vector<std::vector<double>> lists = {{1.0}, {1.0, 2.0}, {0.0, 1.0, 1.0, 3.0, 3.0, 3.0, 10.0}, {-5.0, -1.0, 0.0, 0.5, 0.5, 4.0}, {2.0, 2.0, 2.0}};
		for(auto& l : lists)
			for(double t = -7.0; t <= 12.0; t += 0.25)
			{
				unsigned k = Locate_Closest_Location(l, t);
				n++;
				double best = 1e300;
				for(double x : l) best = std::min(best, std::fabs(x - t));
				if(k >= l.size() || std::fabs(l[k] - t) > best) BADF("Locate_Closest_Location(list of %zu, %g) = %u: not an index of a nearest element", l.size(), t, k);
			}
	}
	printf("OBSERVED %ld requests\n", n);
	return finish();
}
