// C08 / C09: Set_Prefactor and Multiply change all outputs (values, integrals, extrema; 1D and 2D) by exactly the stated factor, in
// any order with the queries; copies and assigned objects answer like the original; Integrate is additive and matches the cubic pieces.
#include "harness.hpp"
#include "libphysica/Numerics.hpp"
#include <cmath>
#include <vector>
using namespace libphysica;
static int bad = 0;
static void chk(bool ok, const char* what, double got, double want) { if(!ok) { printf("OBSERVED %s: %.15g, expected %.15g  ** VIOLATES the property **\n", what, got, want); bad++; } }
static bool close_(double a, double b) { return std::fabs(a - b) <= 1e-11 * std::max(1.0, std::max(std::fabs(a), std::fabs(b))); }
int main()
{
	std::vector<double> x = {0, 1, 2.5, 3, 4.2, 6, 7, 9}, f = {1, 3, -2, 0.5, 4, 4, -1, 2};
	// 1D: prefactor after earlier queries (anything cached must follow the factor)
	{
		Interpolation I(x, f), ref(x, f);
		double gmin = I.Global_Minimum(), gmax = I.Global_Maximum(), in = I.Integrate(0.3, 8.1), v = I(5.1), lm = I.Local_Minimum(1.2, 6.6);
		I.Set_Prefactor(-2.0);
		chk(close_(I(5.1), -2 * v), "1D value after Set_Prefactor(-2)", I(5.1), -2 * v);
		chk(close_(I.Integrate(0.3, 8.1), -2 * in), "1D integral after Set_Prefactor(-2)", I.Integrate(0.3, 8.1), -2 * in);
		chk(close_(I.Global_Minimum(), -2 * gmax), "1D global minimum after Set_Prefactor(-2)", I.Global_Minimum(), -2 * gmax);
		chk(close_(I.Global_Maximum(), -2 * gmin), "1D global maximum after Set_Prefactor(-2)", I.Global_Maximum(), -2 * gmin);
		chk(close_(I.Local_Maximum(1.2, 6.6), -2 * lm), "1D local maximum after Set_Prefactor(-2)", I.Local_Maximum(1.2, 6.6), -2 * lm);
		I.Multiply(0.5);
		chk(close_(I(5.1), -v), "1D value after Multiply(0.5)", I(5.1), -v);
		// copies and assignment, after a history of queries on the original
		for(double q : {8.9, 8.8, 8.7, 0.1, 0.2}) I(q);
		Interpolation C(I), A; A = I;
		for(double q : {0.05, 4.2, 8.95, 3.3}) { chk(C(q) == I(q), "copy answers like the original", C(q), I(q)); chk(A(q) == I(q), "assigned object answers like the original", A(q), I(q)); }
		chk(close_(C.Integrate(1, 7), I.Integrate(1, 7)), "copy: integral", C.Integrate(1, 7), I.Integrate(1, 7));
		// integral: additivity, orientation, same-interval limits, agreement with a fine Simpson sum of the interpolant itself
		double whole = ref.Integrate(0.3, 8.1), parts = ref.Integrate(0.3, 2.7) + ref.Integrate(2.7, 2.9) + ref.Integrate(2.9, 8.1);
		chk(close_(whole, parts), "integral additive over a split", parts, whole);
		chk(close_(ref.Integrate(8.1, 0.3), -whole), "integral antisymmetric", ref.Integrate(8.1, 0.3), -whole);
		chk(close_(ref.Integrate(2.9, 2.6), -ref.Integrate(2.6, 2.9)), "integral antisymmetric for limits inside one interval", ref.Integrate(2.9, 2.6), -ref.Integrate(2.6, 2.9));
		for(auto lim : {std::pair<double, double>{2.6, 2.9}, {0.3, 8.1}, {4.2, 6.0}, {3.1, 3.1}})
		{
			int n = 20000; double h = (lim.second - lim.first) / n, s = 0;
			for(int k = 0; k <= n; k++) s += (k == 0 || k == n ? 1 : (k % 2 ? 4 : 2)) * ref(lim.first + k * h);
			s *= h / 3;
			chk(std::fabs(ref.Integrate(lim.first, lim.second) - s) <= 1e-7 * std::max(1.0, std::fabs(s)), "integral vs Simpson sum of the interpolant", ref.Integrate(lim.first, lim.second), s);
		}
	}
	// 2D
	{
		std::vector<double> xs = {0, 1, 2, 4}, ys = {-1, 0, 3};
		std::vector<std::vector<double>> g = {{1, 2, -3}, {0, 5, 1}, {2, 2, 2}, {-4, 1, 7}};
		Interpolation_2D J(xs, ys, g);
		double v = J(1.5, 0.7), mn = J.Global_Minimum(), mx = J.Global_Maximum();
		J.Set_Prefactor(-3.0);
		chk(close_(J(1.5, 0.7), -3 * v), "2D value after Set_Prefactor(-3)", J(1.5, 0.7), -3 * v);
		chk(close_(J.Global_Minimum(), -3 * mx), "2D global minimum after Set_Prefactor(-3)", J.Global_Minimum(), -3 * mx);
		chk(close_(J.Global_Maximum(), -3 * mn), "2D global maximum after Set_Prefactor(-3)", J.Global_Maximum(), -3 * mn);
		J.Multiply(-1.0 / 3.0);
		chk(close_(J.Global_Minimum(), mn), "2D global minimum after Multiply back", J.Global_Minimum(), mn);
		Interpolation_2D K(J);
		chk(K(3.3, 2.2) == J(3.3, 2.2), "2D copy answers like the original", K(3.3, 2.2), J(3.3, 2.2));
	}
	// out-of-domain requests stop with a diagnostic, the 1% extrapolation zone does not
	{
		Interpolation I(x, f);
		Outcome o1 = run_child([&]() { volatile double v = I(9.0 + 0.5); (void) v; }); report("Interpolate 0.5 beyond the last abscissa", o1, violates_meaningless(o1));
		Outcome o2 = run_child([&]() { volatile double v = I(-0.5); (void) v; }); report("Interpolate 0.5 before the first abscissa", o2, violates_meaningless(o2));
		Outcome o3 = run_child([&]() { volatile double v = I(9.0 + 0.009 * 2); (void) v; }); report("Interpolate inside the 1% extrapolation zone", o3, violates_meaningful(o3));
		Outcome o4 = run_child([&]() { I(4.0); I(4.1); volatile double v = I(9.0 + 0.5); (void) v; }); report("Interpolate beyond the domain after correlated calls", o4, violates_meaningless(o4));
		// the same with unit factors: the table is {x * 1000}, the extrapolation zone is 1% of the *transformed* edge intervals
		Interpolation U(x, f, 1000.0, 2.0);
		Outcome o5 = run_child([&]() { volatile double v = U(9000.0 + 15.0); (void) v; }); report("with x_dim = 1000: 15 beyond the last abscissa 9000 (1% zone is 20)", o5, violates_meaningful(o5));
		Outcome o6 = run_child([&]() { volatile double v = U(-9.0); (void) v; }); report("with x_dim = 1000: 9 before the first abscissa 0 (1% zone is 10)", o6, violates_meaningful(o6));
		Outcome o7 = run_child([&]() { volatile double v = U(9000.0 + 25.0); (void) v; }); report("with x_dim = 1000: 25 beyond the last abscissa", o7, violates_meaningless(o7));
		Interpolation W(x, f, 1e-3, 1.0);
		Outcome o8 = run_child([&]() { volatile double v = W(9e-3 + 1e-3); (void) v; }); report("with x_dim = 1e-3: 1e-3 beyond the last abscissa 9e-3 (1% zone is 2e-5)", o8, violates_meaningless(o8));
		bad += g_viol;
	}
	printf(bad ? "REPRODUCED %d\n" : "NOT-REPRODUCED\n", bad);
	return 0;
}
