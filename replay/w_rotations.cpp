// C16: Rotation_Matrix is orthogonal with determinant +1, fixes its axis and turns perpendicular vectors by the stated angle in the
// right-handed sense, for every angle (multiples of pi included); Spherical_Coordinates about an axis has norm r, polar angle theta
// from the axis and azimuth increasing in the right-handed sense, for every axis (both poles included).
#include "harness.hpp"
#include "libphysica/Linear_Algebra.hpp"
#include <cmath>
using namespace libphysica;
static int bad = 0;
static void fail(const char* s, double a, double b) { printf("OBSERVED %s: %.12g vs %.12g  ** VIOLATES the property **\n", s, a, b); bad++; }
int main()
{
	std::vector<Vector> axes = {Vector({0, 0, 1}), Vector({0, 0, -1}), Vector({1, 0, 0}), Vector({1, 2, -2}), Vector({-0.3, 0.4, 1e-9}), Vector({1e-9, 0, 1}), Vector({0, 1e-5, -1}), Vector({1e-4, 0, 1}), Vector({3e-5, -4e-5, 2.0})};
	for(auto& ax : axes) for(double al : {0.0, 1e-7, 0.5, M_PI / 2, 3.0, M_PI, M_PI + 1e-9, 4.5, 2 * M_PI - 1e-7, -1.1})
	{
		Matrix R = Rotation_Matrix(al, 3, ax);
		Matrix RtR = R.Transpose().Product(R);
		for(int i = 0; i < 3; i++) for(int j = 0; j < 3; j++) if(std::fabs(RtR[i][j] - (i == j)) > 1e-9) { fail("R^T R is not the identity", RtR[i][j], i == j); i = 3; break; }
		if(std::fabs(R.Determinant() - 1) > 1e-9) fail("det R", R.Determinant(), 1);
		Vector n = ax.Normalized(), Rn = R.Product(n);
		for(int i = 0; i < 3; i++) if(std::fabs(Rn[i] - n[i]) > 1e-9) { fail("axis not fixed", Rn[i], n[i]); break; }
		Vector u = (std::fabs(n[0]) < 0.9 ? Vector({1, 0, 0}) : Vector({0, 1, 0})); u = (u - n.Dot(u) * n).Normalized();
		Vector Ru = R.Product(u);
		double c = Ru.Dot(u), s = n.Dot(u.Cross(Ru));
		if(std::fabs(c - std::cos(al)) > 1e-9 || std::fabs(s - std::sin(al)) > 1e-9) fail("angle/sense of rotation (cos, then sin)", c, std::cos(al)), fail(" ... sin", s, std::sin(al));
	}
	for(auto& ax : axes) for(double th : {0.0, 0.3, M_PI / 2, 2.5, M_PI}) for(double ph : {0.0, 0.7, 2.0, 4.0})
	{
		double r = 2.5;
		Vector v = Spherical_Coordinates(r, th, ph, ax), n = ax.Normalized();
		if(std::fabs(v.Norm() - r) > 1e-9) fail("norm", v.Norm(), r);
		if(std::fabs(v.Dot(n) - r * std::cos(th)) > 1e-8) fail("polar angle from the axis", v.Dot(n), r * std::cos(th));
		Vector w = Spherical_Coordinates(r, th, ph + 0.25, ax);
		double sense = n.Dot(v.Cross(w)), want = r * r * std::sin(th) * std::sin(th) * std::sin(0.25);
		if(std::fabs(sense - want) > 1e-8) fail("azimuth advances in the right-handed sense by the stated amount", sense, want);
	}
	Vector z = Spherical_Coordinates(1.0, 0.3, 0.7);
	if(std::fabs(z[0] - std::sin(0.3) * std::cos(0.7)) > 1e-12 || std::fabs(z[1] - std::sin(0.3) * std::sin(0.7)) > 1e-12 || std::fabs(z[2] - std::cos(0.3)) > 1e-12) fail("Spherical_Coordinates(r,theta,phi) definition", z[0], std::sin(0.3) * std::cos(0.7));
	printf(bad ? "REPRODUCED %d\n" : "NOT-REPRODUCED\n", bad);
	return 0;
}
