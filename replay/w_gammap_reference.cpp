// C06: P and Q agree with an independent reference (boost) to 1e-12 for a <= 100, on both sides of the switch-over x = a + 1,
// and to 1e-3 (absolute) for a > 100 up to 1e4, across the bulk of the distribution and both sides of a = 100.
#include "harness.hpp"
#include "libphysica/Special_Functions.hpp"
#include <boost/math/special_functions/gamma.hpp>
#include <cmath>
using namespace libphysica;
int main()
{
	int bad = 0, n = 0; double worst = 0;
	double as[] = {0.5, 3.0, 20.0, 40.0, 64.0, 80.0, 100.0};
	for(double a : as) for(double dx = -2.0; dx <= 3.0; dx += 0.125)
	{
		double x = a + dx; if(x <= 0) continue; n++;
		double dp = std::fabs(GammaP(x, a) - boost::math::gamma_p(a, x)), dq = std::fabs(GammaQ(x, a) - boost::math::gamma_q(a, x));
		worst = std::max(worst, std::max(dp, dq));
		if(dp > 1e-12 || dq > 1e-12) { if(bad < 8) printf("OBSERVED a=%g x=%g: |P - ref| = %.3g, |Q - ref| = %.3g  ** VIOLATES the property **\n", a, x, dp, dq); bad++; }
	}
	printf("OBSERVED %d points with a <= 100, worst deviation %.3g\n", n, worst);
	double big[] = {100.5, 101.0, 120.0, 150.0, 300.0, 1000.0, 5000.0, 10000.0};
	double worst_big = 0; int nb = 0;
	for(double a : big) for(double t = -40.0; t <= 40.0; t += 1.0)
	{
		double x = a + 1.0 + t * std::sqrt(a) / 4.0; if(x <= 0) continue; nb++;
		double dp = std::fabs(GammaP(x, a) - boost::math::gamma_p(a, x)), dq = std::fabs(GammaQ(x, a) - boost::math::gamma_q(a, x));
		worst_big = std::max(worst_big, std::max(dp, dq));
		if(dp > 1e-3 || dq > 1e-3) { if(bad < 8) printf("OBSERVED a=%g x=%g: |P - ref| = %.3g, |Q - ref| = %.3g (allowed 1e-3)  ** VIOLATES the property **\n", a, x, dp, dq); bad++; }
	}
	printf("OBSERVED %d points with a > 100, worst deviation %.3g\n", nb, worst_big);
	printf(bad ? "REPRODUCED %d\n" : "NOT-REPRODUCED\n", bad);
	return 0;
}
