// C06: P and Q agree with an independent reference (boost) to 1e-12 for a <= 100, on both sides of the switch-over x = a + 1.
#include "harness.hpp"
#include "libphysica/Special_Functions.hpp"
#include <boost/math/special_functions/gamma.hpp>
#include <cmath>
using namespace libphysica;
int main()
{
	int bad = 0, n = 0; double worst = 0;
	double as[] = {0.5, 3.0, 20.0, 40.0, 64.0, 80.0, 100.0};
	for(double a : as) for(double dx = -2.0; dx <= 3.0; dx += 0.125)
	{
		double x = a + dx; if(x <= 0) continue; n++;
		double dp = std::fabs(GammaP(x, a) - boost::math::gamma_p(a, x)), dq = std::fabs(GammaQ(x, a) - boost::math::gamma_q(a, x));
		worst = std::max(worst, std::max(dp, dq));
		if(dp > 1e-12 || dq > 1e-12) { if(bad < 8) printf("OBSERVED a=%g x=%g: |P - ref| = %.3g, |Q - ref| = %.3g  ** VIOLATES the property **\n", a, x, dp, dq); bad++; }
	}
	printf("OBSERVED %d points, worst deviation %.3g\n", n, worst);
	printf(bad ? "REPRODUCED %d\n" : "NOT-REPRODUCED\n", bad);
	return 0;
}
