// C18: Sample_Poisson draws from the Poisson law, means above 500 included (mean and variance of 20000 draws within 7 standard errors).
#include "harness.hpp"
#include "libphysica/Statistics.hpp"
#include <cmath>
#include <random>
using namespace libphysica;
int main()
{
	int bad = 0;
	for(double lam : {3.0, 499.0, 501.0, 1200.0, 2500.0})
	{
		std::mt19937 rng(20260928);
		const int n = 20000; double s = 0, s2 = 0;
		Outcome o = run_child([&]() { std::mt19937 r2(1); for(int i = 0; i < 200; i++) Sample_Poisson(r2, lam); });
		if(!o.returned_normally) { printf("OBSERVED Sample_Poisson(mean %g): %s  ** VIOLATES the property **\n", lam, kind(o)); bad++; continue; }
		for(int i = 0; i < n; i++) { double k = Sample_Poisson(rng, lam); s += k; s2 += k * k; }
		double m = s / n, v = s2 / n - m * m;
		double sem = std::sqrt(lam / n), sev = std::sqrt((lam + 2 * lam * lam) / n);
		bool ok = std::fabs(m - lam) <= 7 * sem && std::fabs(v - lam) <= 7 * sev;
		printf("OBSERVED mean %g: sample mean %.3f (standard error %.3f), sample variance %.1f%s\n", lam, m, sem, v, ok ? "" : "  ** VIOLATES the property **");
		if(!ok) bad++;
	}
	printf(bad ? "REPRODUCED %d\n" : "NOT-REPRODUCED\n", bad);
	return 0;
}
