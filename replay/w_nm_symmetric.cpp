// C11: on a strictly convex quadratic bowl the returned point lies within the distance implied by the requested tolerance from the
// minimiser, also when the simplex passes through a position where all its vertices have the same value (one dimension: a two-point
// simplex symmetric about the minimiser -- f(x) = (x-3)^2 + 1, start 0, step 0.5 reaches {2.5, 3.5}: the input of the defect
// repaired by the fix commit "Minimization::minimize stopped on a simplex whose vertices have equal values ...").
#include "harness.hpp"
#include <cmath>
#include <vector>
#include <functional>
#include "libphysica/Numerics.hpp"
using namespace libphysica;
int main()
{
	std::function<double(std::vector<double>)> f = [](std::vector<double> x) { return (x[0] - 3.0) * (x[0] - 3.0) + 1.0; };
	struct { double start, delta; } runs[] = {{0.0, 0.5}, {-2.0, 1.0}, {1.0, 0.25}};
	for(auto& r : runs)
	{
		Minimization M(1e-10);
		std::vector<double> s = {r.start};
		std::vector<double> x = M.minimize(s, r.delta, f);
		// the distance implied by a fractional tolerance of 1e-10 in the function value is about 1e-5; allow a hundred times that
		bool far = std::fabs(x[0] - 3.0) > 1e-3;
		printf("OBSERVED minimize((x-3)^2+1, start %g, step %g, ftol 1e-10) = %.9g, f = %.9g (minimiser 3, minimum 1)%s\n", r.start, r.delta, x[0], M.fmin, far ? "  ** VIOLATES the property **" : "");
		if(far) g_viol++;
	}
	return finish();
}
