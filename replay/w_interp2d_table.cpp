// C10 / C01: a 2D interpolation table that is ragged or does not match the two abscissa lists is a meaningless request: it must stop
// with a diagnostic and never read or write out of bounds; a matching table is accepted and reproduces its grid values.
#include "harness.hpp"
#include "libphysica/Numerics.hpp"
#include <vector>
using namespace libphysica;
int main()
{
	std::vector<double> x = {0, 1, 2, 4}, y = {-1, 0, 3};
	std::vector<std::vector<double>> good = {{1, 2, -3}, {0, 5, 1}, {2, 2, 2}, {-4, 1, 7}};
	std::vector<std::vector<double>> ragged = {{1, 2, -3}, {0, 5}, {2, 2, 2}, {-4, 1, 7}};
	std::vector<std::vector<double>> short_rows = {{1, 2}, {0, 5}, {2, 2}, {-4, 1}};
	std::vector<std::vector<double>> few_rows = {{1, 2, -3}, {0, 5, 1}};
	std::vector<std::vector<double>> none;
	Outcome o0 = run_child([&]() { Interpolation_2D I(x, y, good); if(I(1, 0) != 5 || I(4, 3) != 7) printf("wrong grid value\n"); });
	report("matching 4x3 table", o0, violates_meaningful(o0) || o0.text.find("wrong") != std::string::npos);
	Outcome o1 = run_child([&]() { Interpolation_2D I(x, y, ragged); volatile double v = I(1.5, 2.0); (void) v; });
	report("ragged table (one row too short), then a query in that row", o1, violates_meaningless(o1));
	Outcome o2 = run_child([&]() { Interpolation_2D I(x, y, short_rows, -1.0, -1.0, 2.0); volatile double v = I(1.5, 2.0); (void) v; });
	report("rows shorter than the y list, with a unit factor", o2, violates_meaningless(o2));
	Outcome o3 = run_child([&]() { Interpolation_2D I(x, y, few_rows); volatile double v = I(3.0, 2.0); (void) v; });
	report("fewer rows than the x list, then a query beyond them", o3, violates_meaningless(o3));
	Outcome o4 = run_child([&]() { Interpolation_2D I(x, y, none); volatile double v = I(1.0, 0.0); (void) v; });
	report("empty table with non-empty abscissa lists", o4, violates_meaningless(o4));
	return finish();
}
