// C02: Find_Root returns a point of the bracket where the function changes sign (or vanishes) within the requested accuracy, whichever
// order the ends are given in; a bracket end that is itself a zero is returned as is; the function is never evaluated outside the bracket.
#include "harness.hpp"
#include "libphysica/Numerics.hpp"
#include <cmath>
using namespace libphysica;
static int bad = 0;
static void run(const char* name, std::function<double(double)> f, double a, double b, double eps, bool end_zero = false)
{
	double lo = std::min(a, b), hi = std::max(a, b); int outside = 0;
	auto probe = [&](double x) { if(x < lo || x > hi) outside++; return f(x); };
	Outcome o = run_child([&]() { printf("%.17g\n", Find_Root(probe, a, b, eps)); });
	if(!o.returned_normally) { printf("OBSERVED %s on [%g, %g]: %s  ** VIOLATES the property **\n", name, a, b, kind(o)); bad++; return; }
	double r = Find_Root(probe, a, b, eps);
	bool in = r >= lo && r <= hi;
	double l = std::max(lo, r - eps), h = std::min(hi, r + eps);
	bool sign = f(r) == 0 || f(l) * f(h) <= 0;
	bool ok = in && sign && outside == 0 && (!end_zero || r == a || r == b);
	printf("OBSERVED %s on [%g, %g], eps %g: root %.15g, f = %.3g, sign change within eps: %s, evaluations outside the bracket: %d%s\n", name, a, b, eps, r, f(r), sign ? "yes" : "no", outside, ok ? "" : "  ** VIOLATES the property **");
	if(!ok) bad++;
}
int main()
{
	auto cubic = [](double x) { return x * x * x - 2 * x - 5; };
	run("x^3-2x-5", cubic, 2, 3, 1e-10); run("x^3-2x-5 (descending)", cubic, 3, 2, 1e-10);
	auto cosx = [](double x) { return std::cos(x) - x; };
	run("cos x - x", cosx, 0, 1, 1e-12); run("cos x - x (descending)", cosx, 1, 0, 1e-12);
	auto pw = [](double x) { return std::pow(x, 7) - 1e-3; };
	run("x^7 - 1e-3, coarse", pw, 0.0, 1e3, 1.0);	  // (power laws over many decades at fine accuracy: known finding findroot-accuracy-cap, its own witness)
	auto wiggle = [](double x) { return (x - 1) * (x - 2.5) * (x - 2.5) * (x - 4); };	  // zero at the end x = 1, non-monotone
	run("end zero (left)", wiggle, 1.0, 3.0, 1e-8, true); run("end zero (right, descending)", wiggle, 3.0, 1.0, 1e-8, true);
	auto cub = [](double x) { return (x - 1) * (x - 2.5) * (x - 4); };	  // zero at the end x = 1, the mid-point value has the sign opposite to the other end
	run("end zero, sign flips at the mid-point", cub, 1.0, 3.0, 1e-8, true); run("end zero, sign flips at the mid-point (descending)", cub, 3.0, 1.0, 1e-8, true);
	run("end zero at the upper end", [](double x) { return (x - 4) * (x - 2.5) * (x - 1) * -1.0; }, 2.0, 4.0, 1e-8, true);
	// a first Ridders estimate that lands next to the lower end must not be accepted as converged
	run("steep rise at the upper end", [](double x) { return std::exp(30 * x) - 2.0; }, 0.0, 3.0, 1e-3);
	run("x^2 - 1, coarse", [](double x) { return x * x - 1; }, 0.0, 10.0, 0.5); run("x^2 - 1, coarse (descending)", [](double x) { return x * x - 1; }, 10.0, 0.0, 0.5);
	run("x^3 - 8, coarse", [](double x) { return x * x * x - 8; }, 0.0, 12.0, 0.4);
	auto lin = [](double x) { return 2 * x - 1; };
	run("end zero of a line", lin, 0.5, 4.0, 1e-8, true); run("line", lin, -10, 10, 1e-3); run("line, huge slope end", [](double x) { return std::exp(40 * x) - 1.5; }, -1.0, 5.0, 1e-2);
	printf(bad ? "REPRODUCED %d\n" : "NOT-REPRODUCED\n", bad);
	return 0;
}
