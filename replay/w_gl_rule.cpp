// C12: for every order the weights sum to b-a and the nodes are symmetric about the midpoint; for reversed limits the rule is the
// mirror image with all weights negated; the three Integrate_Gauss_Legendre overloads agree for the same rule, in any call order.
#include "harness.hpp"
#include "libphysica/Integration.hpp"
#include <cmath>
using namespace libphysica;
int main()
{
	int bad = 0;
	double a = -0.7, b = 2.1;
	for(unsigned int n = 1; n <= 12; n++)
	{
		auto fw = Compute_Gauss_Legendre_Roots_and_Weights(n, a, b), rv = Compute_Gauss_Legendre_Roots_and_Weights(n, b, a);
		double sum = 0; for(auto& r : fw) sum += r[1];
		if(std::fabs(sum - (b - a)) > 1e-12) { printf("OBSERVED n=%u: weights sum to %.12g, not %.12g  ** VIOLATES the property **\n", n, sum, b - a); bad++; }
		for(unsigned int k = 0; k < n; k++)
		{
			if(std::fabs(fw[k][0] + fw[n - 1 - k][0] - (a + b)) > 1e-12 || std::fabs(fw[k][1] - fw[n - 1 - k][1]) > 1e-12) { printf("OBSERVED n=%u k=%u: not symmetric  ** VIOLATES the property **\n", n, k); bad++; }
			if(std::fabs(rv[k][0] - fw[n - 1 - k][0]) > 1e-12 || std::fabs(rv[k][1] + fw[n - 1 - k][1]) > 1e-12) { printf("OBSERVED n=%u k=%u: reversed limits give node %.12g weight %.12g, expected %.12g and %.12g  ** VIOLATES the property **\n", n, k, rv[k][0], rv[k][1], fw[n - 1 - k][0], -fw[n - 1 - k][1]); bad++; }
		}
	}
	auto f = [](double x) { return std::pow(x, 9) + std::exp(-x); };
	for(unsigned int n : {2u, 5u, 8u, 3u})
	{
		double v1 = Integrate_Gauss_Legendre(f, 0.5, 2.0, n);
		auto rule = Compute_Gauss_Legendre_Roots_and_Weights(n, 0.5, 2.0);
		double v2 = Integrate_Gauss_Legendre(f, rule);
		std::vector<double> vals; for(auto& r : rule) vals.push_back(f(r[0]));
		double v3 = Integrate_Gauss_Legendre(vals, rule);
		bool ok = v1 == v2 && v2 == v3;
		printf("OBSERVED n=%u: overloads give %.12g, %.12g, %.12g%s\n", n, v1, v2, v3, ok ? "" : "  ** VIOLATES the property **");
		if(!ok) bad++;
	}
	printf(bad ? "REPRODUCED %d\n" : "NOT-REPRODUCED\n", bad);
	return 0;
}
