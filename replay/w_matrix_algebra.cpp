// C04 / C05 / C10: entries of products, sums and transposes are the textbook ones; the predicates agree with their definitions;
// the block constructor places every block at the offset given by the blocks before it; the determinant is the cofactor expansion,
// A * Inverse(A) = 1 for invertible A, and non-square / singular requests stop with a diagnostic.
#include "harness.hpp"
#include "libphysica/Linear_Algebra.hpp"
#include <cmath>
#include <vector>
using namespace libphysica;
static int bad = 0;
static void fail(const char* s) { printf("OBSERVED %s  ** VIOLATES the property **\n", s); bad++; }
static Matrix gen(unsigned r, unsigned c, unsigned long seed)
{
	Matrix M(r, c);
	for(unsigned i = 0; i < r; i++) for(unsigned j = 0; j < c; j++) { seed = seed * 6364136223846793005UL + 1442695040888963407UL; M[i][j] = (double) ((long) (seed >> 40) % 19 - 9); }
	return M;
}
static double det_ref(const Matrix& A)
{
	unsigned n = A.Rows();
	if(n == 1) return A[0][0];
	if(n == 2) return A[0][0] * A[1][1] - A[0][1] * A[1][0];
	double d = 0; 
	for(unsigned c = 0; c < n; c++)
	{
		Matrix S(n - 1, n - 1);
		for(unsigned i = 1; i < n; i++) { unsigned cc = 0; for(unsigned j = 0; j < n; j++) if(j != c) S[i - 1][cc++] = A[i][j]; }
		d += ((c % 2) ? -1.0 : 1.0) * A[0][c] * det_ref(S);
	}
	return d;
}
int main()
{
	// products of several shapes against the definition
	unsigned shapes[][3] = {{1, 1, 1}, {2, 3, 4}, {4, 4, 4}, {3, 5, 2}, {5, 1, 5}, {6, 7, 6}};
	for(auto& s : shapes)
	{
		Matrix A = gen(s[0], s[1], 11 + s[0]), B = gen(s[1], s[2], 7 + s[2]), C = A.Product(B);
		if(C.Rows() != s[0] || C.Columns() != s[2]) { fail("product has the wrong shape"); continue; }
		for(unsigned i = 0; i < s[0]; i++) for(unsigned j = 0; j < s[2]; j++) { double e = 0; for(unsigned k = 0; k < s[1]; k++) e += A[i][k] * B[k][j]; if(C[i][j] != e) { fail("product entry differs from the row-by-column sum"); i = s[0]; break; } }
		Matrix T = A.Transpose();
		for(unsigned i = 0; i < s[0]; i++) for(unsigned j = 0; j < s[1]; j++) if(T[j][i] != A[i][j]) { fail("transpose entry"); i = s[0]; break; }
	}
	// predicates
	Matrix S({{1, 2, 3}, {2, 5, -1}, {3, -1, 0}}), As({{0, 2, -3}, {-2, 0, 4}, {3, -4, 0}}), As_bad({{0, 2, -3}, {-2, 1, 4}, {3, -4, 0}}), As_bad2({{0, 2, -3}, {-2, 0, 4}, {3, 4, 0}}), D({{2, 0}, {0, -3}}), R({{1, 2, 3}, {4, 5, 6}});
	if(!S.Symmetric() || As.Symmetric() || R.Symmetric()) fail("Symmetric()");
	if(!As.Antisymmetric() || S.Antisymmetric() || As_bad.Antisymmetric() || As_bad2.Antisymmetric()) fail("Antisymmetric()");
	if(!D.Diagonal() || S.Diagonal()) fail("Diagonal()");
	if(!S.Square() || R.Square()) fail("Square()");
	// block constructor: 2 x 3 grid of blocks with different sizes
	{
		Matrix b00 = gen(2, 1, 1), b01 = gen(2, 3, 2), b02 = gen(2, 2, 3), b10 = gen(3, 1, 4), b11 = gen(3, 3, 5), b12 = gen(3, 2, 6);
		Matrix M(std::vector<std::vector<Matrix>>{{b00, b01, b02}, {b10, b11, b12}});
		std::vector<std::vector<Matrix>> g = {{b00, b01, b02}, {b10, b11, b12}};
		unsigned ro[] = {0, 2}, co[] = {0, 1, 4};
		bool ok = M.Rows() == 5 && M.Columns() == 6;
		for(unsigned br = 0; ok && br < 2; br++) for(unsigned bc = 0; ok && bc < 3; bc++) for(unsigned i = 0; ok && i < g[br][bc].Rows(); i++) for(unsigned j = 0; ok && j < g[br][bc].Columns(); j++) if(M[ro[br] + i][co[bc] + j] != g[br][bc][i][j]) ok = false;
		if(!ok) fail("block constructor: a block is not at the offset given by the blocks before it");
	}
	// determinant and inverse
	for(unsigned n = 1; n <= 5; n++) for(unsigned long seed = 1; seed <= 6; seed++)
	{
		Matrix A = gen(n, n, 100 * n + seed);
		double d = A.Determinant(), ref = det_ref(A);
		if(std::fabs(d - ref) > 1e-9 * std::max(1.0, std::fabs(ref))) { printf("OBSERVED n=%u: Determinant %.12g, cofactor expansion %.12g  ** VIOLATES the property **\n", n, d, ref); bad++; }
		if(std::fabs(ref) > 0.5)
		{
			Outcome o = run_child([&]() { Matrix I = A.Product(A.Inverse()); for(unsigned i = 0; i < n; i++) for(unsigned j = 0; j < n; j++) if(std::fabs(I[i][j] - (i == j)) > 1e-9) { printf("bad-inverse\n"); return; } });
			if(!o.returned_normally || o.text.find("bad-inverse") != std::string::npos) { printf("OBSERVED n=%u seed %lu (det %.6g): A * Inverse(A) != 1 or no return (%s)  ** VIOLATES the property **\n", n, seed, ref, kind(o)); bad++; }
		}
	}
	Matrix Z({{0, 1}, {1, 0}});
	{ Outcome o = run_child([&]() { Matrix I = Z.Inverse(); if(I[0][1] != 1 || I[1][0] != 1 || I[0][0] != 0) printf("bad\n"); }); if(!o.returned_normally || o.text.find("bad") != std::string::npos) { fail("Inverse of the swap matrix (zero leading pivot)"); } }
	{ Outcome o = run_child([&]() { volatile double d = R.Determinant(); (void) d; }); report("Determinant of a 2x3 matrix", o, violates_meaningless(o)); bad += g_viol; g_viol = 0; }
	{ Matrix Sg({{1, 2}, {2, 4}}); Outcome o = run_child([&]() { Matrix I = Sg.Inverse(); (void) I; }); report("Inverse of a singular matrix", o, violates_meaningless(o)); bad += g_viol; g_viol = 0; }
	{ Matrix Sg({{1, 2, 3}, {4, 5, 6}, {7, 8, 9}}); Outcome o = run_child([&]() { Matrix I = Sg.Inverse(); (void) I; }); report("Inverse of the singular matrix 1..9", o, violates_meaningless(o)); bad += g_viol; g_viol = 0; }
	{ Matrix Sg({{0.1, 0.2, 0.3, 0.4}, {0.7, 0.1, 0.5, 0.2}, {0.8, 0.3, 0.8, 0.6}, {1.5, 0.4, 1.3, 0.8}}); Outcome o = run_child([&]() { Matrix I = Sg.Inverse(); (void) I; }); report("Inverse of a singular 4x4 matrix (row 3 = row 1 + row 2, row 4 = row 2 + row 3)", o, violates_meaningless(o)); bad += g_viol; g_viol = 0; }
	printf(bad ? "REPRODUCED %d\n" : "NOT-REPRODUCED\n", bad);
	return 0;
}
