// C07: the Poisson likelihoods equal the mass function at signal plus background (binned: the product over bins;
// log versions: the logarithm).  Grid includes empty observations with a non-zero background.
#include "harness.hpp"
#include "libphysica/Statistics.hpp"
#include <cmath>
#include <vector>
using namespace libphysica;
static int bad = 0;
static void cmp(const char* what, double got, double want, double s, unsigned long k, double b)
{
	bool ok = std::fabs(got - want) <= 1e-10 * std::max(1.0, std::fabs(want)) + 1e-12;
	if(!ok) { printf("OBSERVED %s(signal=%g, observed=%lu, background=%g) = %.12g, expected %.12g  ** VIOLATES the property **\n", what, s, k, b, got, want); bad++; }
}
int main()
{
	double ss[] = {0.5, 2.0, 10.0}; unsigned long ks[] = {0, 1, 3, 12}; double bs[] = {0.0, 0.2, 7.5};
	for(double s : ss) for(unsigned long k : ks) for(double b : bs)
	{
		double pmf = PMF_Poisson(s + b, (unsigned int) k);
		cmp("Likelihood_Poisson", Likelihood_Poisson(s, k, b), pmf, s, k, b);
		cmp("Log_Likelihood_Poisson", Log_Likelihood_Poisson(s, k, b), std::log(pmf), s, k, b);
	}
	std::vector<double> sig = {0.5, 2.0, 4.0}, bg = {7.5, 0.3, 1.0}; std::vector<unsigned long> obs = {0, 3, 0};
	double prod = 1.0; for(int i = 0; i < 3; i++) prod *= PMF_Poisson(sig[i] + bg[i], (unsigned int) obs[i]);
	cmp("Likelihood_Poisson_Binned", Likelihood_Poisson_Binned(sig, obs, bg), prod, 0, 0, 0);
	cmp("Log_Likelihood_Poisson_Binned", Log_Likelihood_Poisson_Binned(sig, obs, bg), std::log(prod), 0, 0, 0);
	printf("OBSERVED %d combinations checked\n", 3 * 4 * 3 * 2 + 2);
	printf(bad ? "REPRODUCED %d\n" : "NOT-REPRODUCED\n", bad);
	return 0;
}
