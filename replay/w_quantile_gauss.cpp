// C07: Quantile_Gauss inverts CDF_Gauss to the accuracy of Inv_Erf (1e-4 in the standardised variable), tails included.
#include "harness.hpp"
#include "libphysica/Statistics.hpp"
#include <cmath>
using namespace libphysica;
int main()
{
	int bad = 0;
	double mu = 1.5, sigma = 2.0;
	double ps[] = {1e-9, 1e-8, 1e-7, 1e-5, 1e-3, 0.3, 0.5, 0.9, 1 - 1e-5, 1 - 1e-7, 1 - 1e-9};
	for(double p : ps)
	{
		Outcome o = run_child([&]() { printf("%.17g\n", Quantile_Gauss(p, mu, sigma)); });
		if(!o.returned_normally) { printf("OBSERVED Quantile_Gauss(%g) -> %s  ** VIOLATES the property **\n", p, kind(o)); bad++; continue; }
		double q = atof(o.text.c_str());
		// reference by bisection on the library's own CDF (erfc-accurate), in the standardised variable
		double lo = -10, hi = 10;
		for(int it = 0; it < 200; it++) { double m = 0.5 * (lo + hi); if(0.5 * std::erfc(-m / std::sqrt(2.0)) < p) lo = m; else hi = m; }
		double zref = 0.5 * (lo + hi), z = (q - mu) / sigma;
		bool ok = std::fabs(z - zref) <= 5e-4;
		printf("OBSERVED Quantile_Gauss(p=%g): z = %.6f, reference %.6f%s\n", p, z, zref, ok ? "" : "  ** VIOLATES the property **");
		if(!ok) bad++;
	}
	printf(bad ? "REPRODUCED %d\n" : "NOT-REPRODUCED\n", bad);
	return 0;
}
