// C13: for smooth integrands every named one-dimensional method returns the exact integral within that method's accuracy (1e-9
// relative for Gauss-Legendre, Gauss-Kronrod, Tanh-Sinh, Gauss-Legendre_2 and Adaptive-Simpson, 1e-6 for Trapezoidal): exponentially
// damped oscillations up to two periods, rational and Gaussian integrands, method_parameter 0 and explicit.
#include "harness.hpp"
#include <cmath>
#include <vector>
#include <string>
#include <functional>
#include "libphysica/Integration.hpp"
using namespace libphysica;
int main()
{
	struct Case { const char* name; std::function<double(double)> f; double a, b, exact; };
	const double pi = std::acos(-1.0);
	auto damped = [pi](double k) { return [k, pi](double x) { return std::exp(-x) * std::sin(k * pi * x); }; };
	auto damped_exact = [pi](double k, double a, double b) { auto F = [k, pi](double x) { double w = k * pi; return -std::exp(-x) * (std::sin(w * x) + w * std::cos(w * x)) / (1.0 + w * w); }; return F(b) - F(a); };
	std::vector<Case> cases = {
		{"exp(-x) sin(2 pi x) on [0,2] (two periods)", damped(2.0), 0.0, 2.0, damped_exact(2.0, 0.0, 2.0)},
		{"exp(-x) sin(pi x) on [0,2] (one period)", damped(1.0), 0.0, 2.0, damped_exact(1.0, 0.0, 2.0)},
		{"exp(-x) sin(pi x) on [0.25,1.75]", damped(1.0), 0.25, 1.75, damped_exact(1.0, 0.25, 1.75)},
		{"1/(1+x^2) on [-1,3]", [](double x) { return 1.0 / (1.0 + x * x); }, -1.0, 3.0, std::atan(3.0) + std::atan(1.0)},
		{"1/(2+x) on [0,5]", [](double x) { return 1.0 / (2.0 + x); }, 0.0, 5.0, std::log(7.0 / 2.0)},
		{"exp(-x^2/2) on [-2,3]", [](double x) { return std::exp(-0.5 * x * x); }, -2.0, 3.0, std::sqrt(pi / 2.0) * (std::erf(3.0 / std::sqrt(2.0)) + std::erf(2.0 / std::sqrt(2.0)))}};
	struct M { const char* name; double tol; std::vector<int> params; };
	std::vector<M> methods = {{"Trapezoidal", 1e-6, {0}}, {"Gauss-Legendre", 1e-9, {0}}, {"Gauss-Kronrod", 1e-9, {0, 8}}, {"Tanh-Sinh", 1e-9, {0}}, {"Adaptive-Simpson", 1e-9, {0}}, {"Gauss-Legendre_2", 1e-9, {0, 40}}};
	for(auto& m : methods)
		for(int par : m.params)
			for(auto& c : cases)
			{
				double v = 0.0;
				int fd[2]; if(pipe(fd)) return 3;
				Outcome o = run_child([&]() { double r = Integrate(c.f, c.a, c.b, m.name, par); if(write(fd[1], &r, sizeof r) < 0) _exit(7); });
				char what[240];
				if(o.returned_normally && read(fd[0], &v, sizeof v) == (ssize_t) sizeof v)
				{
					double rel = std::fabs(v - c.exact) / std::fabs(c.exact);
					snprintf(what, sizeof what, "%s (parameter %d), %s: %.12g, exact %.12g, relative error %.2g (allowed %g)", m.name, par, c.name, v, c.exact, rel, m.tol);
					report(what, o, !(rel <= m.tol));
				}
				else { snprintf(what, sizeof what, "%s (parameter %d), %s: did not return", m.name, par, c.name); report(what, o, true); }
				close(fd[0]); close(fd[1]);
			}
	return finish();
}
