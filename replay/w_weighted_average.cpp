// C19: Weighted_Average with equal weights gives the plain mean with standard error s/sqrt(N); the result does not change when all
// weights are multiplied by a common factor.
#include "harness.hpp"
#include "libphysica/Statistics.hpp"
#include <cmath>
using namespace libphysica;
int main()
{
	int bad = 0;
	std::vector<double> xs = {1.5, -2.0, 7.25, 3.0, 3.5, 10.0, -4.0};
	for(double w : {1.0, 2.0, 0.25})
	{
		std::vector<DataPoint> d; for(double x : xs) d.push_back(DataPoint(x, w));
		std::vector<double> r = Weighted_Average(d);
		double mean = Arithmetic_Mean(xs), se = Standard_Deviation(xs) / std::sqrt((double) xs.size());
		bool ok = std::fabs(r[0] - mean) <= 1e-12 * std::fabs(mean) && std::fabs(r[1] - se) <= 1e-12 * se;
		printf("OBSERVED equal weights %g: (%.12g, %.12g), plain mean and s/sqrt(N): (%.12g, %.12g)%s\n", w, r[0], r[1], mean, se, ok ? "" : "  ** VIOLATES the property **");
		if(!ok) bad++;
	}
	std::vector<DataPoint> a, b; double ws[] = {0.5, 2.0, 1.0, 3.5, 0.1, 1.0, 4.0};
	for(size_t i = 0; i < xs.size(); i++) { a.push_back(DataPoint(xs[i], ws[i])); b.push_back(DataPoint(xs[i], 4.0 * ws[i])); }
	std::vector<double> ra = Weighted_Average(a), rb = Weighted_Average(b);
	bool ok = std::fabs(ra[0] - rb[0]) <= 1e-12 * std::fabs(ra[0]) && std::fabs(ra[1] - rb[1]) <= 1e-12 * ra[1];
	printf("OBSERVED weights w and 4w: (%.12g, %.12g) and (%.12g, %.12g)%s\n", ra[0], ra[1], rb[0], rb[1], ok ? "" : "  ** VIOLATES the property **");
	if(!ok) bad++;
	printf(bad ? "REPRODUCED %d\n" : "NOT-REPRODUCED\n", bad);
	return 0;
}
