// C07: the binomial CDF is the sum of the mass function, for every p in [0,1] (end points included) and every count.
#include "harness.hpp"
#include "libphysica/Statistics.hpp"
#include <cmath>
using namespace libphysica;
int main()
{
	int bad = 0;
	for(unsigned trials : {1u, 5u, 12u, 40u}) for(double p : {0.0, 1e-3, 0.25, 0.5, 0.9, 1.0}) for(unsigned x = 0; x <= trials + 2; x += (trials > 12 ? 7 : 1))
	{
		Outcome o = run_child([&]() { printf("%.17g\n", CDF_Binomial(trials, p, x)); });
		if(!o.returned_normally) { printf("OBSERVED CDF_Binomial(%u, %g, %u): %s  ** VIOLATES the property **\n", trials, p, x, kind(o)); bad++; continue; }
		double c = atof(o.text.c_str()), s = 0; for(unsigned i = 0; i <= x && i <= trials; i++) s += PMF_Binomial(trials, p, i);
		if(!(std::fabs(c - s) <= 1e-12) || c < -1e-15 || c > 1 + 1e-12) { printf("OBSERVED CDF_Binomial(%u, %g, %u) = %.15g, sum of the mass function %.15g  ** VIOLATES the property **\n", trials, p, x, c, s); bad++; }
	}
	printf(bad ? "REPRODUCED %d\n" : "NOT-REPRODUCED\n", bad);
	return 0;
}
