// C16: Spherical_Coordinates(r,theta,phi,axis) returns a vector of norm r at polar angle theta from the axis for
// every non-zero axis, including axes antiparallel to z; increasing phi turns right-handed about the axis.
#include "harness.hpp"
#include "libphysica/Linear_Algebra.hpp"
#include <cmath>
using namespace libphysica;
static int bad = 0;
static void check(const char* what, bool ok, double a, double b)
{
	printf("OBSERVED %s: got %.9g expected %.9g%s\n", what, a, b, ok ? "" : "  ** VIOLATES the property **");
	if(!ok) bad++;
}
int main()
{
	double r = 2.0, theta = 0.3, phi = 0.4;
	std::vector<std::vector<double>> axes = {{0, 0, -1}, {0, 0, -3.5}, {0, 0, 1}, {1, 0, 0}, {0.3, -0.2, -0.9}, {1e-9, 0, -1}};
	for(auto& a : axes)
	{
		Vector axis(a);
		Vector u = Spherical_Coordinates(r, theta, phi, axis);
		Vector u2 = Spherical_Coordinates(r, theta, phi + 1e-3, axis);
		double norm = u.Norm(), an = axis.Norm();
		double cosang = u.Dot(axis) / (norm * an);
		char w[160];
		snprintf(w, sizeof w, "axis (%g,%g,%g): norm", a[0], a[1], a[2]); check(w, std::fabs(norm - r) <= 1e-9 * r, norm, r);
		snprintf(w, sizeof w, "axis (%g,%g,%g): cos(polar angle)", a[0], a[1], a[2]); check(w, std::fabs(cosang - std::cos(theta)) <= 1e-6, cosang, std::cos(theta));
		// right-handed: axis . (u x du) > 0
		Vector du = u2 - u;
		double triple = axis.Dot(u.Cross(du));
		snprintf(w, sizeof w, "axis (%g,%g,%g): handedness axis.(u x du)", a[0], a[1], a[2]); check(w, triple > 0, triple, 1.0);
	}
	printf(bad ? "REPRODUCED %d\n" : "NOT-REPRODUCED\n", bad);
	return 0;
}
