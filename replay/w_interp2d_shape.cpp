// C01: the 2D interpolant returns grid values at grid nodes, stays within the minimum and maximum of the four surrounding grid
// values inside every cell, is continuous across cell edges and reproduces bilinear functions -- ordinates of mixed sign and of
// magnitudes from 1e-20 to 1e20 in one cell included, queries on the last grid lines and after a search from either side.
#include "harness.hpp"
#include <cmath>
#include <vector>
#include <algorithm>
#include "libphysica/Numerics.hpp"
using namespace libphysica;
static int shown = 0;
#define BADF(...) { if(shown++ < 10) { printf("OBSERVED "); printf(__VA_ARGS__); printf("  ** VIOLATES the property **\n"); } g_viol++; }
int main()
{
	std::vector<double> xs = {0.0, 1.0, 2.0, 2.5, 1e3}, ys = {-3.0, 0.0, 4.0, 4.5};
	std::vector<std::vector<std::vector<double>>> tables;
	tables.push_back({{1, 2, 3, 4}, {2, -1, 0.5, 7}, {3, 3, 3, 3}, {0, 10, -10, 5}, {1, 1, 2, 2}});
	tables.push_back({{1e20, 1, 3, 1e-20}, {2, 1e20, 1, 7}, {1e-3, 1e6, 1, -1e20}, {1, 1e20, -1e20, 1}, {1e-20, 1, 1e20, 1}});
	tables.push_back({{1e6, 1e-3, 1e6, 1e-3}, {1e-3, 1e6, 1e-3, 1e6}, {-1e6, 1e-3, -1e6, 1e-3}, {5, 5, 5, 5}, {1e-3, -1e6, 1e-3, 1e6}});
	long n = 0;
	for(size_t tix = 0; tix < tables.size(); tix++)
	{
		auto& f = tables[tix];
		for(int order = 0; order < 2; order++)
		{
			Interpolation_2D I(xs, ys, f);
			for(size_t a = 0; a < xs.size(); a++)
				for(size_t b = 0; b < ys.size(); b++)
				{
					size_t i = order ? xs.size() - 1 - a : a, j = order ? ys.size() - 1 - b : b;
					double v = I(xs[i], ys[j]);
					n++;
					if(v != f[i][j] && std::fabs(v - f[i][j]) > 4e-16 * std::fabs(f[i][j])) BADF("table %zu, node (%zu,%zu): got %.17g, the grid value is %.17g", tix, i, j, v, f[i][j]);
				}
			for(size_t i = 0; i + 1 < xs.size(); i++)
				for(size_t j = 0; j + 1 < ys.size(); j++)
				{
					double lo = std::min(std::min(f[i][j], f[i + 1][j]), std::min(f[i][j + 1], f[i + 1][j + 1])), hi = std::max(std::max(f[i][j], f[i + 1][j]), std::max(f[i][j + 1], f[i + 1][j + 1]));
					for(double t : {0.0, 1e-9, 0.25, 0.5, 0.75, 1.0 - 1e-9, 1.0}) for(double u : {0.0, 0.3, 0.5, 0.9, 1.0})
					{
						double x = xs[i] + t * (xs[i + 1] - xs[i]), y = ys[j] + u * (ys[j + 1] - ys[j]);
						double v = I(x, y);
						n++;
						double slack = 4e-16 * std::max(std::fabs(lo), std::fabs(hi));
						if(v < lo - slack || v > hi + slack) BADF("table %zu, cell (%zu,%zu) at (%g,%g): got %.17g, outside [%g, %g]", tix, i, j, x, y, v, lo, hi);
					}
				}
		}
	}
	{
		// bilinear functions are reproduced
		std::vector<std::vector<double>> b(xs.size(), std::vector<double>(ys.size()));
		auto B = [](double x, double y) { return 2.0 - 0.5 * x + 3.0 * y + 0.25 * x * y; };
		for(size_t i = 0; i < xs.size(); i++) for(size_t j = 0; j < ys.size(); j++) b[i][j] = B(xs[i], ys[j]);
		Interpolation_2D I(xs, ys, b);
		for(double x : {0.1, 0.9, 1.5, 2.2, 2.5, 400.0, 999.0}) for(double y : {-2.9, -1.0, 0.0, 2.0, 4.2, 4.5})
		{
			double v = I(x, y);
			n++;
			if(std::fabs(v - B(x, y)) > 1e-9 * (1.0 + std::fabs(B(x, y)))) BADF("bilinear function at (%g,%g): got %.15g, exact %.15g", x, y, v, B(x, y));
		}
	}
	printf("OBSERVED %ld queries\n", n);
	return finish();
}
