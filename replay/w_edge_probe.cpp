// Not a witness of a claimed property: a probe of requests that the contracts exclude by precondition (DESIGN 10.7), run by hand:
//   python3-vt -m lpv.replay w_edge_probe
#include "harness.hpp"
#include <vector>
#include <cmath>
#include <iostream>
#include "libphysica/List_Manipulations.hpp"
#include "libphysica/Utilities.hpp"
#include "libphysica/Statistics.hpp"
#include "libphysica/Numerics.hpp"
#include "libphysica/Integration.hpp"
#include "libphysica/Linear_Algebra.hpp"
using namespace libphysica;
#define TRY(name, ...) { Outcome o = run_child([&]() { alarm(5); __VA_ARGS__; }); printf("%-50s -> %s | %s\n", name, kind(o), o.text.substr(0, 110).c_str()); }
int main()
{
	std::vector<double> e;
	TRY("Locate_Closest_Location({}, 1.0)", volatile int i = Locate_Closest_Location(e, 1.0); (void) i);
	TRY("Workload_Distribution(0, 5)", auto w = Workload_Distribution(0, 5); printf("%zu", w.size()));
	TRY("Range(0, 5, 0)", auto w = Range(0, 5, 0); printf("%zu", w.size()));
	TRY("Arithmetic_Mean({})", volatile double m = Arithmetic_Mean(e); printf("%g", (double) m));
	TRY("Variance({1})", std::vector<double> one = {1.0}; volatile double m = Variance(one); printf("%g", (double) m));
	TRY("Median({})", std::vector<double> ee; volatile double m = Median(ee); printf("%g", (double) m));
	TRY("Sub_List({}, 0, 3)", auto s = Sub_List(e, 0, 3); printf("%zu", s.size()));
	TRY("Linear_Space(0,1,0)", auto s = Linear_Space(0, 1, 0); printf("%zu", s.size()));
	TRY("Log_Space(1,10,0)", auto s = Log_Space(1, 10, 0); printf("%zu", s.size()));
	TRY("Compute_Gauss_Legendre_Roots_and_Weights(0)", auto s = Compute_Gauss_Legendre_Roots_and_Weights(0); printf("%zu", s.size()));
	TRY("Minimization::minimize(empty start)", Minimization M(1e-6); std::vector<double> sp; auto f = [](std::vector<double> v) { return 1.0; }; auto r = M.minimize(sp, 0.1, f); printf("%zu", r.size()));
	TRY("Weighted_Average({})", std::vector<DataPoint> d; auto r = Weighted_Average(d); printf("%g", r[0]));
	TRY("Weighted_Average(one point)", std::vector<DataPoint> d = {DataPoint(1.0, 1.0)}; auto r = Weighted_Average(d); printf("%g %g", r[0], r[1]));
	TRY("Interpolation_2D(empty)", Interpolation_2D I(e, e, std::vector<std::vector<double>>{}); printf("ok"));
	TRY("Vector().Normalized()", Vector v; Vector n = v.Normalized(); printf("%u", n.Size()));
	TRY("Matrix().Determinant()", Matrix m; volatile double d = m.Determinant(); printf("%g", (double) d));
	TRY("Matrix().Inverse()", Matrix m; Matrix i = m.Inverse(); printf("%u", i.Rows()));
	TRY("Matrix().Trace()", Matrix m; volatile double d = m.Trace(); printf("%g", (double) d));
	TRY("Flatten_List({})", std::vector<std::vector<double>> v; auto f = Flatten_List(v); printf("%zu", f.size()));
	TRY("Lists_Equal({}, {})", bool b = Lists_Equal(e, e); printf("%d", b));
	TRY("Integrate_Gauss_Legendre(f, 0, 1, 0)", auto f = [](double x) { return x; }; volatile double d = Integrate_Gauss_Legendre(f, 0.0, 1.0, 0); printf("%g", (double) d));
	TRY("PDF_Chi_Square(1, -2)", volatile double d = PDF_Chi_Square(1.0, -2.0); printf("%g", (double) d));
	TRY("CDF_Chi_Square(1, -2)", volatile double d = CDF_Chi_Square(1.0, -2.0); printf("%g", (double) d));
	TRY("CDF_Chi_Square(1, -3)", volatile double d = CDF_Chi_Square(1.0, -3.0); printf("%g", (double) d));
	TRY("Sample_Gauss(sigma = -1)", std::mt19937 g(1); volatile double d = Sample_Gauss(g, 0.0, -1.0); printf("%g", (double) d));
	TRY("Sample_Uniform(1, 0)", std::mt19937 g(1); volatile double d = Sample_Uniform(g, 1.0, 0.0); printf("%g", (double) d));
	TRY("Sample_Poisson(-1)", std::mt19937 g(1); volatile unsigned d = Sample_Poisson(g, -1.0); printf("%u", (unsigned) d));
	TRY("Local_Minimum(x_k, x_k) / Local_Maximum(x_k, x_k) at every knot after every kind of earlier call", {
		std::vector<double> xs = {0.0, 1.0, 2.5, 3.0, 7.0, 8.0}, fs = {1.0, 3.0, 2.0, 5.0, 4.0, 6.0};
		int bad = 0;
		for(double prev : {0.0, 0.5, 1.0, 2.5, 2.9, 3.0, 6.0, 7.0, 7.5, 8.0})
			for(double prev2 : {0.0, 1.0, 2.6, 3.0, 7.0, 8.0})
				for(size_t k = 0; k < xs.size(); k++)
				{
					Interpolation I(xs, fs);
					I(prev); I(prev2);
					double lo = I.Local_Minimum(xs[k], xs[k]);
					I(prev2); I(prev);
					double hi = I.Local_Maximum(xs[k], xs[k]);
					if(std::fabs(lo - fs[k]) > 1e-12 || std::fabs(hi - fs[k]) > 1e-12) bad++;
				}
		printf("%d knots with a wrong degenerate extremum", bad); });
	TRY("Find_Indices", auto i = Find_Indices(e, 1.0); printf("%zu", i.size()));
	return 0;
}
