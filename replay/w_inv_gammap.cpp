// C06: Inv_GammaP inverts P: P(Inv_GammaP(p,a),a) = p within 1e-7 for p in (0,1), a <= 100; the result lies in the open domain.
#include "harness.hpp"
#include "libphysica/Special_Functions.hpp"
#include <cmath>
using namespace libphysica;
int main()
{
	int bad = 0, n = 0;
	double as[] = {0.5, 1.001, 1.2, 1.5, 2.0, 2.5, 3.0, 10.0, 50.0};
	double ps[] = {1e-7, 4e-7, 1e-6, 1e-5, 1e-4, 1e-3, 0.1, 0.5, 0.9, 0.999};
	for(double a : as) for(double p : ps)
	{
		double x = Inv_GammaP(p, a); n++;
		double back = x > 0 ? GammaP(x, a) : 0.0;
		bool ok = x > 0 && std::fabs(back - p) <= 1e-7;
		if(!ok) { printf("OBSERVED Inv_GammaP(p=%g, a=%g) = %.12g, P there = %.12g  ** VIOLATES the property **\n", p, a, x, back); bad++; }
	}
	printf("OBSERVED %d (p, a) pairs checked\n", n);
	printf(bad ? "REPRODUCED %d\n" : "NOT-REPRODUCED\n", bad);
	return 0;
}
