// C18: Sample_Metropolis returns exactly the requested number of samples for every burn-in and thinning setting, all inside the domain.
#include "harness.hpp"
#include "libphysica/Statistics.hpp"
#include <cmath>
#include <random>
using namespace libphysica;
int main()
{
	int bad = 0;
	std::function<double(double)> pdf = [](double x) { return std::exp(-0.5 * x * x); };
	for(unsigned sample : {0u, 1u, 2u, 17u, 100u}) for(unsigned thin : {1u, 2u, 10u}) for(unsigned burn : {0u, 1u, 100u})
	{
		std::mt19937 rng(42);
		std::vector<double> s = Sample_Metropolis(rng, pdf, 1.0, sample, thin, burn, {-3.0, 2.0});
		bool in = true; for(double v : s) if(!(v >= -3.0 && v <= 2.0)) in = false;
		if(s.size() != sample || !in) { printf("OBSERVED sample=%u thinning=%u burn_in=%u: %zu samples returned, inside the domain: %s  ** VIOLATES the property **\n", sample, thin, burn, s.size(), in ? "yes" : "no"); bad++; }
	}
	printf(bad ? "REPRODUCED %d\n" : "NOT-REPRODUCED\n", bad);
	return 0;
}
