// C19/C10: Sub_List(v,i1,i2) returns the elements i1..i2 (inclusive), upper index clamped to the last element.
#include "harness.hpp"
#include <iostream>
#include <vector>
#include "libphysica/List_Manipulations.hpp"
using namespace libphysica;
int main()
{
	std::vector<double> v = {1, 2, 3};
	{ Outcome o = run_child([&]() { auto s = Sub_List(v, 0, 3); if(s.size() != 3 || s[2] != 3) { fprintf(stderr, "size %zu\n", s.size()); abort(); } }); report("Sub_List({1,2,3},0,3) == {1,2,3}", o, violates_meaningful(o)); }
	{ Outcome o = run_child([&]() { auto s = Sub_List(v, 1, 7); if(s.size() != 2 || s[0] != 2 || s[1] != 3) { fprintf(stderr, "size %zu\n", s.size()); abort(); } }); report("Sub_List({1,2,3},1,7) == {2,3}", o, violates_meaningful(o)); }
	{ Outcome o = run_child([&]() { auto s = Sub_List(v, -2, 1); if(s.size() != 2 || s[0] != 1 || s[1] != 2) abort(); }); report("Sub_List({1,2,3},-2,1) == {1,2}", o, violates_meaningful(o)); }
	{ Outcome o = run_child([&]() { auto s = Sub_List(v, 1, 1); if(s.size() != 1 || s[0] != 2) abort(); }); report("Sub_List({1,2,3},1,1) == {2}", o, violates_meaningful(o)); }
	return finish();
}
