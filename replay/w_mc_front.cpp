// C14: the 2D/3D front ends hand the Monte-Carlo integrators the region in axis order: every evaluation point lies in the box,
// coordinate by coordinate, for boxes whose lower corners differ between the axes; In 3 methods.
#include "harness.hpp"
#include "libphysica/Integration.hpp"
#include <cmath>
using namespace libphysica;
int main()
{
	int bad = 0;
	for(const char* m : {"Monte-Carlo", "Vegas", "Miser"})
	{
		long out2 = 0, out3 = 0, n2 = 0, n3 = 0;
		auto f2 = [&](double x, double y) { n2++; if(!(x >= 0 && x <= 1 && y >= 2 && y <= 3)) out2++; return x + 10 * y; };
		auto f3 = [&](double x, double y, double z) { n3++; if(!(x >= 0 && x <= 1 && y >= 2 && y <= 3 && z >= -4 && z <= 6)) out3++; return x + 10 * y + 100 * z; };
		double v2 = Integrate_2D(f2, 0, 1, 2, 3, m, 20000), v3 = Integrate_3D(f3, 0, 1, 2, 3, -4, 6, m, 20000);
		bool ok = out2 == 0 && out3 == 0 && std::fabs(v2 - 25.5) < 2.0 && std::fabs(v3 - 1255) < 120;
		printf("OBSERVED %s: points outside the box 2D %ld of %ld, 3D %ld of %ld; estimates %.4g (25.5) and %.5g (1255)%s\n", m, out2, n2, out3, n3, v2, v3, ok ? "" : "  ** VIOLATES the property **");
		if(!ok) bad++;
	}
	printf(bad ? "REPRODUCED %d\n" : "NOT-REPRODUCED\n", bad);
	return 0;
}
