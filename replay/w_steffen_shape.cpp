// C01 / C09 / C10: the 1D interpolant returns each tabulated value at its abscissa, is monotone between adjacent abscissae and stays
// between the two tabulated values, whatever was queried before (every query is compared with a fresh object's answer).
#include "harness.hpp"
#include "libphysica/Numerics.hpp"
#include <cmath>
#include <vector>
using namespace libphysica;
static int bad = 0;
static void table(const char* name, std::vector<double> x, std::vector<double> f)
{
	Interpolation I(x, f);
	unsigned N = x.size();
	// 1. shape, from a scan in increasing order
	for(unsigned k = 0; k + 1 < N; k++)
	{
		double lo = std::min(f[k], f[k + 1]), hi = std::max(f[k], f[k + 1]), prev = f[k];
		int dir = f[k + 1] > f[k] ? 1 : f[k + 1] < f[k] ? -1 : 0;
		for(int s = 0; s <= 64; s++)
		{
			double t = x[k] + (x[k + 1] - x[k]) * s / 64.0, v = I(t);
			double tol = 1e-12 * std::max(1.0, std::max(std::fabs(lo), std::fabs(hi)));
			if(v < lo - tol || v > hi + tol) { if(bad < 12) printf("OBSERVED %s: value %.12g at x=%.12g leaves [%.12g, %.12g]  ** VIOLATES the property **\n", name, v, t, lo, hi); bad++; }
			if(s > 0 && ((dir >= 0 && v < prev - tol) || (dir <= 0 && v > prev + tol))) { if(bad < 12) printf("OBSERVED %s: not monotone at x=%.12g in interval %u  ** VIOLATES the property **\n", name, t, k); bad++; }
			prev = v;
		}
	}
	// 2. knots and mid-points in many query orders against a history-free object
	std::vector<double> qs;
	for(unsigned k = 0; k < N; k++) { qs.push_back(x[k]); if(k + 1 < N) { qs.push_back(0.5 * (x[k] + x[k + 1])); qs.push_back(x[k] + 0.999 * (x[k + 1] - x[k])); } }
	unsigned long seed = 12345;
	for(int round = 0; round < 40; round++)
	{
		double pos = 0;
		for(int step = 0; step < 60; step++)
		{
			seed = seed * 6364136223846793005UL + 1442695040888963407UL;
			// correlated walk (exercises the hunting search) with occasional jumps
			long jump = (seed >> 33) % 100 < 85 ? (long) ((seed >> 40) % 7) - 3 : (long) ((seed >> 40) % qs.size());
			pos = std::fmod(std::fabs(pos + jump), (double) qs.size());
			double q = qs[(size_t) pos];
			Interpolation fresh(x, f);
			double a = I(q), b = fresh(q);
			bool knot = false; for(double xk : x) if(xk == q) knot = true;
			// bit-identical off the abscissae, within rounding at them (either adjacent piece may be selected there)
			if(knot ? std::fabs(a - b) > 1e-12 * std::max(1.0, std::fabs(b)) : a != b) { if(bad < 12) printf("OBSERVED %s: I(%.12g) = %.15g after earlier queries, a fresh object gives %.15g  ** VIOLATES the property **\n", name, q, a, b); bad++; }
		}
	}
	for(unsigned k = 0; k < N; k++) { double v = I(x[k]); if(std::fabs(v - f[k]) > 1e-12 * std::max(1.0, std::fabs(f[k]))) { printf("OBSERVED %s: I(x[%u]) = %.15g, tabulated %.15g  ** VIOLATES the property **\n", name, k, v, f[k]); bad++; } }
}
int main()
{
	table("smooth", {0, 1, 2, 3, 4, 5, 6, 7, 8, 9, 10, 11, 12, 13, 14}, {0, 1, 4, 9, 16, 25, 36, 49, 64, 81, 100, 121, 144, 169, 196});
	table("steep-then-gentle end", {0, 1, 2, 3, 4, 5}, {0, 0.5, 0.2, 3, -7, -6.5});
	table("gentle-then-steep start", {0, 1, 2, 3, 4}, {1, 0.9, 8, 8.1, 2});
	table("plateaus", {0, 0.5, 2, 2.1, 4, 9, 9.5, 12, 15, 16, 20, 21, 22}, {1, 1, 3, 3, -2, -2, 5, 6, 6, 0, 1, 1, 7});
	table("uneven grid", {-3, -2.999, 0, 0.001, 7, 7.5, 30, 31, 31.5, 40, 41, 100, 101}, {2, 5, -1, -1.5, 4, 4, 9, 2, 2.5, 3, 10, -4, 0});
	printf("OBSERVED 5 tables, shape scan + 2400 history-dependent queries each\n");
	printf(bad ? "REPRODUCED %d\n" : "NOT-REPRODUCED\n", bad);
	return 0;
}
