// C10/C13: an unknown integration method terminates the process with a diagnostic (whatever the limits).
#include "harness.hpp"
#include "libphysica/Integration.hpp"
using namespace libphysica;
int main()
{
	auto f = [](double x) { return x * x; };
	auto f2 = [](double x, double y) { return x * y; };
	{ Outcome o = run_child([&]() { volatile double v = Integrate(f, 0.0, 1.0, "No-Such-Method"); (void) v; }); report("Integrate(f,0,1,\"No-Such-Method\")", o, violates_meaningless(o)); }
	{ Outcome o = run_child([&]() { volatile double v = Integrate(f, 1.0, 1.0, "No-Such-Method"); (void) v; }); report("Integrate(f,1,1,\"No-Such-Method\") (equal limits)", o, violates_meaningless(o)); }
	{ Outcome o = run_child([&]() { volatile double v = Integrate_2D(f2, 1.0, 1.0, 0.0, 1.0, "No-Such-Method"); (void) v; }); report("Integrate_2D(f,1,1,0,1,\"No-Such-Method\")", o, violates_meaningless(o)); }
	{ Outcome o = run_child([&]() { volatile double v = Integrate(f, 1.0, 1.0, "Gauss-Legendre"); if(v != 0.0) abort(); }); report("Integrate(f,1,1,\"Gauss-Legendre\") == 0", o, violates_meaningful(o)); }
	{ Outcome o = run_child([&]() { volatile double v = Integrate(f, 0.0, 1.0, "Gauss-Legendre"); (void) v; }); report("Integrate(f,0,1,\"Gauss-Legendre\")", o, violates_meaningful(o)); }
	return finish();
}
