// C17: for all degrees l <= 12, orders |m| <= l and directions: Y_{l,-m} = (-1)^m conj(Y_{l,m}); the vector harmonic Y equals the
// radial unit vector times Y_{l,m}; the vector harmonic Psi is tangential and equals r times the gradient of Y_{l,m}
// (gradient by central differences in theta and phi; directions at the poles excluded from the gradient comparison).
#include "harness.hpp"
#include <cmath>
#include <complex>
#include <vector>
#include "libphysica/Special_Functions.hpp"
using namespace libphysica;
typedef std::complex<double> cd;
static int shown = 0;
#define BADF(...) { if(shown++ < 10) { printf("OBSERVED "); printf(__VA_ARGS__); printf("  ** VIOLATES the property **\n"); } g_viol++; }
int main()
{
	std::vector<std::pair<double, double>> dirs = {{0.3, 0.2}, {1.1, 2.5}, {M_PI / 2, 0.0}, {M_PI / 2, M_PI / 2}, {2.6, 4.4}, {1.9, 5.9}, {0.7, 3.3}, {1e-3, 1.0}, {M_PI - 1e-3, 2.0}};
	long n = 0;
	for(int l = 0; l <= 12; l++)
		for(int m = -l; m <= l; m++)
			for(auto& d : dirs)
			{
				double th = d.first, ph = d.second;
				n++;
				cd y = Spherical_Harmonics(l, m, th, ph), ym = Spherical_Harmonics(l, -m, th, ph);
				double scale = 1.0 + std::abs(y);
				cd want = ((m % 2 == 0) ? 1.0 : -1.0) * std::conj(y);
				if(std::abs(ym - want) > 1e-10 * scale) BADF("Y_{%d,%d} is not (-1)^m conj(Y_{%d,%d}) at theta %g, phi %g: %g%+gi vs %g%+gi", l, -m, l, m, th, ph, ym.real(), ym.imag(), want.real(), want.imag());
				double rhat[3] = {std::sin(th) * std::cos(ph), std::sin(th) * std::sin(ph), std::cos(th)};
				double that[3] = {std::cos(th) * std::cos(ph), std::cos(th) * std::sin(ph), -std::sin(th)};
				double phat[3] = {-std::sin(ph), std::cos(ph), 0.0};
				std::vector<cd> Y = Vector_Spherical_Harmonics_Y(l, m, th, ph), P = Vector_Spherical_Harmonics_Psi(l, m, th, ph);
				for(int i = 0; i < 3; i++)
					if(std::abs(Y[i] - rhat[i] * y) > 1e-9 * scale) { BADF("vector harmonic Y(l=%d, m=%d), component %d at theta %g, phi %g: %g%+gi, radial unit vector times Y_lm: %g%+gi", l, m, i, th, ph, Y[i].real(), Y[i].imag(), (rhat[i] * y).real(), (rhat[i] * y).imag()); break; }
				cd radial = P[0] * rhat[0] + P[1] * rhat[1] + P[2] * rhat[2];
				double pn = std::abs(P[0]) + std::abs(P[1]) + std::abs(P[2]);
				if(std::abs(radial) > 1e-9 * (1.0 + pn)) BADF("vector harmonic Psi(l=%d, m=%d) is not tangential at theta %g, phi %g: radial part %g", l, m, th, ph, std::abs(radial));
				if(std::sin(th) > 0.05)
				{
					double h = 1e-5;
					cd dth = (Spherical_Harmonics(l, m, th + h, ph) - Spherical_Harmonics(l, m, th - h, ph)) / (2 * h);
					cd dph = (Spherical_Harmonics(l, m, th, ph + h) - Spherical_Harmonics(l, m, th, ph - h)) / (2 * h);
					for(int i = 0; i < 3; i++)
					{
						cd grad = that[i] * dth + phat[i] * dph / std::sin(th);
						if(std::abs(P[i] - grad) > 2e-5 * (1.0 + pn) * (1 + l * l)) { BADF("vector harmonic Psi(l=%d, m=%d), component %d at theta %g, phi %g: %g%+gi, r grad Y_lm: %g%+gi", l, m, i, th, ph, P[i].real(), P[i].imag(), grad.real(), grad.imag()); break; }
					}
				}
			}
	printf("OBSERVED %ld (l, m, direction) triples\n", n);
	return finish();
}
