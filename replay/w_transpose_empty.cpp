// C10 / C19: Transpose_Lists of an empty list of lists is a meaningful request (the transpose is empty); it must return normally and
// never read memory out of bounds.
#include "harness.hpp"
#include <vector>
#include <iostream>
#include "libphysica/List_Manipulations.hpp"
using namespace libphysica;
int main()
{
	std::vector<std::vector<double>> empty;
	Outcome o = run_child([&]() { auto t = Transpose_Lists(empty); printf("rows=%zu\n", t.size()); });
	report("Transpose_Lists({})", o, violates_meaningful(o));
	std::vector<std::vector<double>> rows_of_nothing(3);
	Outcome o2 = run_child([&]() { auto t = Transpose_Lists(rows_of_nothing); printf("rows=%zu\n", t.size()); });
	report("Transpose_Lists({{},{},{}})", o2, violates_meaningful(o2));
	return finish();
}
