// C10: interpolation tables that are too short (fewer than three points) are meaningless requests.
#include "harness.hpp"
#include "libphysica/Numerics.hpp"
using namespace libphysica;
int main()
{
	for(int n = 0; n <= 2; n++)
	{
		std::vector<double> x, f;
		for(int i = 0; i < n; i++) { x.push_back(i); f.push_back(i); }
		Outcome o = run_child([&]() { Interpolation I(x, f); volatile double y = (n > 0) ? I(x[0]) : 0.0; (void) y; });
		char what[64]; snprintf(what, sizeof what, "Interpolation(table of %d points)", n);
		report(what, o, violates_meaningless(o));
	}
	{
		std::vector<double> x = {0, 1, 2}, f = {0, 1, 4};
		Outcome o = run_child([&]() { Interpolation I(x, f); volatile double y = I(0.5); (void) y; });
		report("Interpolation(table of 3 points)", o, violates_meaningful(o));
	}
	return finish();
}
