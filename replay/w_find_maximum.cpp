// C11: Find_Maximum of f is Find_Minimum of -f (same abscissae, same tolerance): the two calls return the same point.
#include "harness.hpp"
#include "libphysica/Numerics.hpp"
#include <cmath>
using namespace libphysica;
int main()
{
	int bad = 0;
	auto f = [](double x) { return -(x - 1.234567) * (x - 1.234567) + 0.1 * std::cos(3 * x); };
	auto g = [&](double x) { return -f(x); };
	double tols[] = {1e-2, 1e-4, 1e-6, 1e-10};
	for(double tol : tols)
	{
		double xm = Find_Maximum(f, 0.0, 0.5, tol), xn = Find_Minimum(g, 0.0, 0.5, tol);
		bool ok = xm == xn;
		printf("OBSERVED tol=%g: Find_Maximum(f) = %.15g, Find_Minimum(-f) = %.15g%s\n", tol, xm, xn, ok ? "" : "  ** VIOLATES the property **");
		if(!ok) bad++;
		if(!(f(xm) >= f(0.0) && f(xm) >= f(0.5))) { printf("OBSERVED result worse than a starting point  ** VIOLATES the property **\n"); bad++; }
	}
	// unimodal objectives: the minimiser is found from any pair of starting abscissae (the bracketing step must use true function values)
	struct { const char* name; std::function<double(double)> f; double allowed; } objs[] = {
		{"(x-3)^2", [](double x) { return (x - 3.0) * (x - 3.0); }, 1e-6}, {"cosh(x-3)", [](double x) { return std::cosh(x - 3.0); }, 1e-6},
		{"sqrt(1+(x-3)^2)", [](double x) { return std::sqrt(1.0 + (x - 3.0) * (x - 3.0)); }, 1e-6}, {"-1/(1+(x-3)^2)", [](double x) { return -1.0 / (1.0 + (x - 3.0) * (x - 3.0)); }, 1e-6}};
	int shown = 0;
	for(auto& o : objs) for(double st : {-40.0, -15.0, -7.0, -2.0, 1.0, 2.9, 3.2, 6.0, 11.0, 25.0, 60.0}) for(double h : {1e-3, 1e-2, 0.1, 0.5, 1.0, 3.0}) for(int dir = 0; dir < 2; dir++)
	{
		double a = st, b = dir ? st - h : st + h;
		double xm = Find_Minimum(o.f, a, b, 1e-8);
		bool ok = std::fabs(xm - 3.0) <= o.allowed && o.f(xm) <= o.f(a) && o.f(xm) <= o.f(b);
		if(!ok) { if(shown++ < 6) printf("OBSERVED Find_Minimum(%s, %g, %g) = %.12g (minimiser 3)  ** VIOLATES the property **\n", o.name, a, b, xm); bad++; }
	}
	printf(bad ? "REPRODUCED %d\n" : "NOT-REPRODUCED\n", bad);
	return 0;
}
