// C11: Find_Maximum of f is Find_Minimum of -f (same abscissae, same tolerance): the two calls return the same point.
#include "harness.hpp"
#include "libphysica/Numerics.hpp"
#include <cmath>
using namespace libphysica;
int main()
{
	int bad = 0;
	auto f = [](double x) { return -(x - 1.234567) * (x - 1.234567) + 0.1 * std::cos(3 * x); };
	auto g = [&](double x) { return -f(x); };
	double tols[] = {1e-2, 1e-4, 1e-6, 1e-10};
	for(double tol : tols)
	{
		double xm = Find_Maximum(f, 0.0, 0.5, tol), xn = Find_Minimum(g, 0.0, 0.5, tol);
		bool ok = xm == xn;
		printf("OBSERVED tol=%g: Find_Maximum(f) = %.15g, Find_Minimum(-f) = %.15g%s\n", tol, xm, xn, ok ? "" : "  ** VIOLATES the property **");
		if(!ok) bad++;
		if(!(f(xm) >= f(0.0) && f(xm) >= f(0.5))) { printf("OBSERVED result worse than a starting point  ** VIOLATES the property **\n"); bad++; }
	}
	printf(bad ? "REPRODUCED %d\n" : "NOT-REPRODUCED\n", bad);
	return 0;
}
