// C06: the regularized incomplete gamma function Q agrees with its closed forms for integer a
// (Q(x,1) = e^-x, Q(x,2) = (1+x) e^-x, Q(x,3) = (1+x+x^2/2) e^-x) on the continued-fraction branch x >= a+1.
#include "harness.hpp"
#include "libphysica/Special_Functions.hpp"
#include <cmath>
using namespace libphysica;
int main()
{
	int bad = 0;
	struct { double x, a; } pts[] = {{5, 2}, {4, 2}, {10, 3}, {6.5, 3}, {3, 1}, {20, 2}};
	for(auto& p : pts)
	{
		double ref = std::exp(-p.x) * (p.a == 1 ? 1.0 : p.a == 2 ? 1.0 + p.x : 1.0 + p.x + p.x * p.x / 2.0);
		double q = GammaQ(p.x, p.a);
		bool ok = std::fabs(q - ref) <= 1e-12 * std::max(1.0, std::fabs(ref)) + 1e-10 * ref;
		printf("OBSERVED GammaQ(%g,%g) = %.12g, closed form %.12g, relative error %.3g%s\n", p.x, p.a, q, ref, std::fabs(q - ref) / ref, ok ? "" : "  ** VIOLATES the property **");
		if(!ok) bad++;
		double s = GammaP(p.x, p.a) + q;
		if(std::fabs(s - 1.0) > 1e-12) { printf("OBSERVED P+Q = %.15g  ** VIOLATES the property **\n", s); bad++; }
	}
	printf(bad ? "REPRODUCED %d\n" : "NOT-REPRODUCED\n", bad);
	return 0;
}
