// C11 known finding (recorded, not repaired): the downhill simplex iteration of Minimization::minimize ends when the vertex values
// agree to the fractional tolerance ftol.  A small initial simplex far from the minimiser satisfies that at once or after a few steps:
// with step sizes of 1e-3 and a starting point 40 away, bowls in 3 to 5 dimensions are left 30 to 80 away from their minimiser
// although the property asks for convergence "from any starting point and scale" (step sizes 1e-3..1e3, tolerances 1e-3..1e-12).
#include "harness.hpp"
#include <cmath>
#include <vector>
#include <functional>
#include "libphysica/Numerics.hpp"
using namespace libphysica;
int main()
{
	struct { int dim; double condmax, scale, shift, ftol; } runs[] = {{4, 1.0, 1e-3, -40.0, 1e-6}, {3, 100.0, 1e-3, -40.0, 1e-6}, {5, 1.0, 1e-3, -40.0, 1e-6}};
	for(auto& r : runs)
	{
		int dim = r.dim;
		std::vector<double> centre(dim), cond(dim);
		for(int j = 0; j < dim; j++) { centre[j] = 1.0 + 0.5 * j; cond[j] = std::pow(r.condmax, (double) j / (dim - 1)); }
		std::function<double(std::vector<double>)> f = [=](std::vector<double> x) { double s = 0.0; for(int j = 0; j < dim; j++) s += cond[j] * (x[j] - centre[j]) * (x[j] - centre[j]); return s + 0.25; };
		std::vector<double> start(dim), deltas(dim);
		for(int j = 0; j < dim; j++) { start[j] = r.shift + 0.3 * j; deltas[j] = r.scale * (1.0 + 0.5 * j); }
		Minimization M(r.ftol);
		std::vector<double> x = M.minimize(start, deltas, f);
		double d2 = 0.0;
		for(int j = 0; j < dim; j++) d2 += (x[j] - centre[j]) * (x[j] - centre[j]);
		double dist = std::sqrt(d2), allowed = 30.0 * std::sqrt(r.ftol * 0.25);
		bool far = dist > allowed;
		printf("OBSERVED minimize(bowl in %d dimensions, condition number %g, start %g away-ish, steps %g, ftol %g): distance to the minimiser %.3g (implied by the tolerance: about %.2g), %d evaluations%s\n", dim, r.condmax, r.shift, r.scale, r.ftol, dist, allowed, M.nfunc, far ? "  ** VIOLATES the property **" : "");
		if(far) g_viol++;
	}
	return finish();
}
