// C05: for every invertible matrix, whatever the position of its zero entries, Inverse returns X with X*M = I.
#include "harness.hpp"
#include "libphysica/Linear_Algebra.hpp"
#include <cmath>
using namespace libphysica;
static bool is_identity(Matrix P, double tol)
{
	for(unsigned int i = 0; i < P.Rows(); i++)
		for(unsigned int j = 0; j < P.Columns(); j++)
			if(std::fabs(P[i][j] - (i == j ? 1.0 : 0.0)) > tol) return false;
	return true;
}
int main()
{
	std::vector<std::vector<std::vector<double>>> Ms = {
		{{0, 1}, {1, 0}},
		{{0, 2, 1}, {1, 0, 0}, {0, 0, 3}},
		{{1, 2, 3}, {2, 4, 7}, {1, 0, 1}},	 // zero pivot appears after the first elimination step
		{{0, 0, 1}, {0, 1, 0}, {1, 0, 0}},
		{{2, 1}, {1, 3}},
		{{1e-20, 1}, {1, 1}}};
	for(auto& m : Ms)
	{
		Outcome o = run_child([&]() { Matrix M(m); Matrix X = M.Inverse(); if(!is_identity(X * M, 1e-9) || !is_identity(M * X, 1e-9)) { fprintf(stderr, "X*M != I\n"); abort(); } });
		char w[128]; snprintf(w, sizeof w, "Inverse of invertible %zux%zu matrix with first row (%g,%g,..)", m.size(), m.size(), m[0][0], m[0][1]);
		report(w, o, violates_meaningful(o));
	}
	{ Outcome o = run_child([]() { Matrix M(std::vector<std::vector<double>>{{1, 2}, {2, 4}}); Matrix X = M.Inverse(); (void) X; }); report("Inverse of a singular matrix", o, violates_meaningless(o)); }
	return finish();
}
