// C19: Median of a list lies between its smallest and largest element, equals the middle element (mean of the two middle elements) of
// the sorted list, keeps the length of the list, and obeys the translation, scaling and permutation laws; lengths 1..200, ties included.
#include "harness.hpp"
#include <algorithm>
#include <cmath>
#include <random>
#include <vector>
#include "libphysica/Statistics.hpp"
using namespace libphysica;
static double reference(std::vector<double> v)
{
	std::sort(v.begin(), v.end());
	size_t n = v.size();
	return n % 2 ? v[n / 2] : (v[n / 2 - 1] + v[n / 2]) / 2;
}
int main()
{
	Outcome o = run_child([]() {
		std::mt19937 g(12345);
		std::uniform_real_distribution<double> u(-50.0, 50.0);
		for(size_t n = 1; n <= 200; n++)
			for(int variant = 0; variant < 3; variant++)
			{
				std::vector<double> v(n);
				for(auto& e : v) e = variant == 1 ? std::floor(u(g) / 20.0) : u(g);	  // variant 1: many ties
				if(variant == 2) std::sort(v.begin(), v.end(), std::greater<double>());
				const double ref = reference(v), lo = *std::min_element(v.begin(), v.end()), hi = *std::max_element(v.begin(), v.end());
				std::vector<double> a = v;
				double m = Median(a);
				if(a.size() != n) { fprintf(stderr, "n=%zu: length %zu after the call\n", n, a.size()); abort(); }
				if(!(lo <= m && m <= hi)) { fprintf(stderr, "n=%zu: median %g outside [%g,%g]\n", n, m, lo, hi); abort(); }
				if(std::fabs(m - ref) > 1e-12 * (1 + std::fabs(ref))) { fprintf(stderr, "n=%zu variant %d: median %.17g, sorted middle %.17g\n", n, variant, m, ref); abort(); }
				std::vector<double> p = v; std::shuffle(p.begin(), p.end(), g);
				double mp = Median(p);
				if(std::fabs(mp - m) > 1e-12 * (1 + std::fabs(m))) { fprintf(stderr, "n=%zu: permutation law %.17g vs %.17g\n", n, mp, m); abort(); }
				std::vector<double> t = v, s = v; for(auto& e : t) e += 7.25; for(auto& e : s) e *= -3.0;
				double mt = Median(t), ms = Median(s);
				if(std::fabs(mt - (m + 7.25)) > 1e-10) { fprintf(stderr, "n=%zu: translation law %.17g vs %.17g\n", n, mt, m + 7.25); abort(); }
				if(std::fabs(ms - (-3.0 * m)) > 1e-10) { fprintf(stderr, "n=%zu: scaling law %.17g vs %.17g\n", n, ms, -3.0 * m); abort(); }
			}
	});
	report("Median: bounds, sorted middle, length, permutation / translation / scaling laws for lengths 1..200", o, violates_meaningful(o));
	return finish();
}
