// C13: each argument of the integrand receives the variable of its own pair of limits (probe: every evaluation point lies in the box,
// coordinate by coordinate); the spherical overload passes vectors of norm r whose polar angle and azimuth are the integration variables.
#include "harness.hpp"
#include "libphysica/Integration.hpp"
#include "libphysica/Linear_Algebra.hpp"
#include <cmath>
#include <string>
#include <algorithm>
using namespace libphysica;
int main()
{
	int bad = 0;
	const char* methods[] = {"Gauss-Legendre", "Gauss-Legendre_2"};
	for(const char* m : methods)
	{
		int out2 = 0, out3 = 0, outs = 0, evals = 0;
		auto f2 = [&](double x, double y) { if(!(x >= 1 && x <= 2 && y >= 10 && y <= 11)) out2++; return x + y; };
		Integrate_2D(f2, 1, 2, 10, 11, m, 7);
		auto f3 = [&](double x, double y, double z) { if(!(x >= 1 && x <= 2 && y >= 10 && y <= 11 && z >= 100 && z <= 101)) out3++; return x + y + z; };
		Integrate_3D(f3, 1, 2, 10, 11, 100, 101, m, 7);
		std::function<double(Vector)> fs = [&](Vector v) {
			evals++;
			double r = v.Norm(), ct = v[2] / r, phi = std::atan2(v[1], v[0]);
			if(!(r >= 0.5 - 1e-9 && r <= 1.5 + 1e-9 && ct >= 0.2 - 1e-9 && ct <= 0.7 + 1e-9 && phi >= 0.3 - 1e-9 && phi <= 1.1 + 1e-9)) outs++;
			return v[0];
		};
		Integrate_3D(fs, 0.5, 1.5, 0.2, 0.7, 0.3, 1.1, m, 7);
		bool ok = out2 == 0 && out3 == 0 && outs == 0;
		printf("OBSERVED %s: evaluation points outside their own limits: 2D %d, 3D %d, spherical %d of %d%s\n", m, out2, out3, outs, evals, ok ? "" : "  ** VIOLATES the property **");
		if(!ok) bad++;
	}
	// orientation and separability: a separable integrand gives the product of the one-dimensional integrals, and reversing any
	// subset of the pairs of limits multiplies the result by (-1)^(number of reversed pairs); equal limits give zero
	const char* all_methods[] = {"Trapezoidal", "Gauss-Legendre", "Gauss-Kronrod", "Tanh-Sinh", "Adaptive-Simpson", "Gauss-Legendre_2"};
	int shown = 0;
	for(const char* m : all_methods)
	{
		auto g2 = [](double x, double y) { return (1.0 + x * x) * std::exp(0.3 * y); };
		double X = (2.0 - 1.0) + (8.0 - 1.0) / 3.0, Y = (std::exp(0.3 * 1.5) - std::exp(0.3 * 0.5)) / 0.3;
		for(int mask = 0; mask < 4; mask++)
		{
			double x1 = 1.0, x2 = 2.0, y1 = 0.5, y2 = 1.5, sign = 1.0;
			if(mask & 1) { std::swap(x1, x2); sign = -sign; }
			if(mask & 2) { std::swap(y1, y2); sign = -sign; }
			double v = Integrate_2D(g2, x1, x2, y1, y2, m, 0);
			if(std::fabs(v - sign * X * Y) > 1e-5 * X * Y) { if(shown++ < 8) printf("OBSERVED Integrate_2D(%s) over x: %g..%g, y: %g..%g = %.9g, analysis %.9g  ** VIOLATES the property **\n", m, x1, x2, y1, y2, v, sign * X * Y); bad++; }
		}
		if(Integrate_2D(g2, 1.0, 1.0, 0.5, 1.5, m, 0) != 0.0 || Integrate_2D(g2, 1.0, 2.0, 0.5, 0.5, m, 0) != 0.0) { printf("OBSERVED Integrate_2D(%s) with equal limits is not zero  ** VIOLATES the property **\n", m); bad++; }
		if(std::string(m) != "Gauss-Legendre" && std::string(m) != "Gauss-Legendre_2") continue;	  // the 3D nests of the adaptive methods take minutes under the sanitizers
		auto g3 = [](double x, double y, double z) { return (1.0 + x * x) * std::exp(0.3 * y) * (2.0 + z); };
		double Z = 2.0 * 0.5 + (1.0 - 0.25) / 2.0;
		for(int mask = 0; mask < 8; mask++)
		{
			double x1 = 1.0, x2 = 2.0, y1 = 0.5, y2 = 1.5, z1 = 0.5, z2 = 1.0, sign = 1.0;
			if(mask & 1) { std::swap(x1, x2); sign = -sign; }
			if(mask & 2) { std::swap(y1, y2); sign = -sign; }
			if(mask & 4) { std::swap(z1, z2); sign = -sign; }
			double v = Integrate_3D(g3, x1, x2, y1, y2, z1, z2, m, 0);
			if(std::fabs(v - sign * X * Y * Z) > 1e-5 * X * Y * Z) { if(shown++ < 8) printf("OBSERVED Integrate_3D(%s) with reversed pairs %d = %.9g, analysis %.9g  ** VIOLATES the property **\n", m, mask, v, sign * X * Y * Z); bad++; }
		}
	}
	printf(bad ? "REPRODUCED %d\n" : "NOT-REPRODUCED\n", bad);
	return 0;
}
