// C13: each argument of the integrand receives the variable of its own pair of limits (probe: every evaluation point lies in the box,
// coordinate by coordinate); the spherical overload passes vectors of norm r whose polar angle and azimuth are the integration variables.
#include "harness.hpp"
#include "libphysica/Integration.hpp"
#include "libphysica/Linear_Algebra.hpp"
#include <cmath>
using namespace libphysica;
int main()
{
	int bad = 0;
	const char* methods[] = {"Gauss-Legendre", "Gauss-Legendre_2"};
	for(const char* m : methods)
	{
		int out2 = 0, out3 = 0, outs = 0, evals = 0;
		auto f2 = [&](double x, double y) { if(!(x >= 1 && x <= 2 && y >= 10 && y <= 11)) out2++; return x + y; };
		Integrate_2D(f2, 1, 2, 10, 11, m, 7);
		auto f3 = [&](double x, double y, double z) { if(!(x >= 1 && x <= 2 && y >= 10 && y <= 11 && z >= 100 && z <= 101)) out3++; return x + y + z; };
		Integrate_3D(f3, 1, 2, 10, 11, 100, 101, m, 7);
		std::function<double(Vector)> fs = [&](Vector v) {
			evals++;
			double r = v.Norm(), ct = v[2] / r, phi = std::atan2(v[1], v[0]);
			if(!(r >= 0.5 - 1e-9 && r <= 1.5 + 1e-9 && ct >= 0.2 - 1e-9 && ct <= 0.7 + 1e-9 && phi >= 0.3 - 1e-9 && phi <= 1.1 + 1e-9)) outs++;
			return v[0];
		};
		Integrate_3D(fs, 0.5, 1.5, 0.2, 0.7, 0.3, 1.1, m, 7);
		bool ok = out2 == 0 && out3 == 0 && outs == 0;
		printf("OBSERVED %s: evaluation points outside their own limits: 2D %d, 3D %d, spherical %d of %d%s\n", m, out2, out3, outs, evals, ok ? "" : "  ** VIOLATES the property **");
		if(!ok) bad++;
	}
	printf(bad ? "REPRODUCED %d\n" : "NOT-REPRODUCED\n", bad);
	return 0;
}
