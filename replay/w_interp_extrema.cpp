// C08: Local_/Global_ extrema equal the smallest/largest value the curve takes (so no evaluation falls outside
// them) and scale with the prefactor of either sign.
#include "harness.hpp"
#include "libphysica/Numerics.hpp"
#include <cmath>
using namespace libphysica;
static int bad = 0;
static void expect(bool ok, const char* what, double got, double bound)
{
	printf("OBSERVED %s: reported %.6g, curve reaches %.6g%s\n", what, got, bound, ok ? "" : "  ** VIOLATES the property **");
	if(!ok) bad++;
}
int main()
{
	std::vector<double> x = {0, 1, 2, 3, 4}, f = {0, 5, -3, 4, 6};
	for(double pre : {1.0, -2.0, 0.5})
	{
		Interpolation I(x, f);
		I.Set_Prefactor(pre);
		// sample the curve
		double lo = 1e300, hi = -1e300, glo = 1e300, ghi = -1e300;
		for(int k = 0; k <= 4000; k++)
		{
			double t = 4.0 * k / 4000.0, v = I(t);
			glo = std::min(glo, v); ghi = std::max(ghi, v);
			if(t >= 0.5 && t <= 2.5) { lo = std::min(lo, v); hi = std::max(hi, v); }
		}
		char w[128];
		double lm = I.Local_Minimum(0.5, 2.5), lM = I.Local_Maximum(0.5, 2.5), gm = I.Global_Minimum(), gM = I.Global_Maximum();
		snprintf(w, sizeof w, "prefactor %g Local_Minimum(0.5,2.5)", pre); expect(std::fabs(lm - lo) <= 1e-6 * (1 + std::fabs(lo)), w, lm, lo);
		snprintf(w, sizeof w, "prefactor %g Local_Maximum(0.5,2.5)", pre); expect(std::fabs(lM - hi) <= 1e-6 * (1 + std::fabs(hi)), w, lM, hi);
		snprintf(w, sizeof w, "prefactor %g Global_Minimum()", pre); expect(std::fabs(gm - glo) <= 1e-6 * (1 + std::fabs(glo)), w, gm, glo);
		snprintf(w, sizeof w, "prefactor %g Global_Maximum()", pre); expect(std::fabs(gM - ghi) <= 1e-6 * (1 + std::fabs(ghi)), w, gM, ghi);
		// adjacent intervals (i_2 == i_1 + 1): the knot between them must be taken into account
		double am = I.Local_Minimum(1.5, 2.5), amin = 1e300;
		for(int k = 0; k <= 1000; k++) amin = std::min(amin, I(1.5 + k / 1000.0));   // grid contains the knot x = 2
		snprintf(w, sizeof w, "prefactor %g Local_Minimum(1.5,2.5)", pre); expect(std::fabs(am - amin) <= 1e-6 * (1 + std::fabs(amin)), w, am, amin);
	}
	printf(bad ? "REPRODUCED %d\n" : "NOT-REPRODUCED\n", bad);
	return 0;
}
