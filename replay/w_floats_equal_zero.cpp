// C17: Floats_Equal is reflexive and symmetric; Relative_Difference is non-negative.
#include "harness.hpp"
#include "libphysica/Special_Functions.hpp"
#include <cmath>
using namespace libphysica;
static int bad = 0;
static void expect(bool ok, const char* what) { printf("OBSERVED %s%s\n", what, ok ? "" : "  ** VIOLATES the property **"); if(!ok) bad++; }
int main()
{
	expect(Floats_Equal(0.0, 0.0, 1e-10), "Floats_Equal(0,0) is true (reflexive)");
	expect(Floats_Equal(-0.0, 0.0, 1e-10), "Floats_Equal(-0,0) is true");
	expect(Floats_Equal(3.5, 3.5, 1e-10), "Floats_Equal(3.5,3.5) is true");
	expect(Relative_Difference(0.0, 0.0) >= 0.0, "Relative_Difference(0,0) >= 0 (not NaN)");
	expect(Floats_Equal(1.0, 1.0 + 1e-12, 1e-10) == Floats_Equal(1.0 + 1e-12, 1.0, 1e-10), "Floats_Equal symmetric");
	expect(!Floats_Equal(1.0, 2.0, 1e-10), "Floats_Equal(1,2) is false");
	printf(bad ? "REPRODUCED %d\n" : "NOT-REPRODUCED\n", bad);
	return 0;
}
