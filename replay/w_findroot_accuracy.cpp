// C02 known finding: Find_Root returns a point far outside the requested accuracy when the
// iteration cap is hit (multiple root creep): x^9 on [-1,3].
#include "harness.hpp"
#include "libphysica/Numerics.hpp"
#include <cmath>
using namespace libphysica;
int main()
{
	auto f = [](double x) { return std::pow(x, 9.0); };
	const double accs[] = {1e-4, 1e-6, 1e-8};
	for(double acc : accs)
	{
		double r = 0.0;
		int fd[2]; if(pipe(fd)) return 3;
		Outcome o = run_child([&]() { double v = Find_Root(f, -1.0, 3.0, acc); if(write(fd[1], &v, sizeof v) < 0) _exit(7); });
		if(o.returned_normally && read(fd[0], &r, sizeof r) == (ssize_t) sizeof r)
		{
			// property: the function changes sign (or vanishes) within acc of the returned point
			bool sign_change_near = (f(r - acc) <= 0.0 && f(r + acc) >= 0.0);
			char what[128]; snprintf(what, sizeof what, "Find_Root(x^9,[-1,3],acc=%g) = %.7g (distance to root %.3g = %.0f x acc)", acc, r, std::fabs(r), std::fabs(r) / acc);
			report(what, o, !sign_change_near);
		}
		else
			report("Find_Root(x^9,[-1,3]) did not return", o, true);
		close(fd[0]); close(fd[1]);
	}
	// same return path ('successive iterates closer than xAccuracy'), second input: a power law on a bracket spanning many decades
	{
		auto g = [](double x) { return std::pow(x, 7.0) - 1e-3; };
		double acc = 1e-9, r = 0.0;
		int fd[2]; if(pipe(fd)) return 3;
		Outcome o = run_child([&]() { double v = Find_Root(g, 1e-6, 1e3, acc); if(write(fd[1], &v, sizeof v) < 0) _exit(7); });
		if(o.returned_normally && read(fd[0], &r, sizeof r) == (ssize_t) sizeof r)
		{
			bool sign_change_near = (g(r - acc) <= 0.0 && g(r + acc) >= 0.0);
			char what[160]; snprintf(what, sizeof what, "Find_Root(x^7-1e-3,[1e-6,1e3],acc=%g) = %.9g (root is 0.372759...)", acc, r);
			report(what, o, !sign_change_near);
		}
		else
			report("Find_Root(x^7-1e-3,[1e-6,1e3]) did not return", o, true);
		close(fd[0]); close(fd[1]);
	}
	return finish();
}
