// C02: the function changes sign (or vanishes) within the requested accuracy of the point Find_Root returns -- flat multiple roots
// (x^9 on [-1,3]: the input of the defect repaired by e3ab227), power laws on brackets spanning many decades, saturating functions,
// accuracies from 1e-14 |root| up to the bracket width.
#include "harness.hpp"
#include "libphysica/Numerics.hpp"
#include <cmath>
#include <vector>
#include <functional>
#include <algorithm>
using namespace libphysica;
int main()
{
	auto f = [](double x) { return std::pow(x, 9.0); };
	const double accs[] = {1e-4, 1e-6, 1e-8};
	for(double acc : accs)
	{
		double r = 0.0;
		int fd[2]; if(pipe(fd)) return 3;
		Outcome o = run_child([&]() { double v = Find_Root(f, -1.0, 3.0, acc); if(write(fd[1], &v, sizeof v) < 0) _exit(7); });
		if(o.returned_normally && read(fd[0], &r, sizeof r) == (ssize_t) sizeof r)
		{
			// property: the function changes sign (or vanishes) within acc of the returned point
			bool sign_change_near = (f(r - acc) <= 0.0 && f(r + acc) >= 0.0);
			char what[128]; snprintf(what, sizeof what, "Find_Root(x^9,[-1,3],acc=%g) = %.7g (distance to root %.3g = %.0f x acc)", acc, r, std::fabs(r), std::fabs(r) / acc);
			report(what, o, !sign_change_near);
		}
		else
			report("Find_Root(x^9,[-1,3]) did not return", o, true);
		close(fd[0]); close(fd[1]);
	}
	// same return path ('successive iterates closer than xAccuracy'), second input: a power law on a bracket spanning many decades
	{
		auto g = [](double x) { return std::pow(x, 7.0) - 1e-3; };
		double acc = 1e-9, r = 0.0;
		int fd[2]; if(pipe(fd)) return 3;
		Outcome o = run_child([&]() { double v = Find_Root(g, 1e-6, 1e3, acc); if(write(fd[1], &v, sizeof v) < 0) _exit(7); });
		if(o.returned_normally && read(fd[0], &r, sizeof r) == (ssize_t) sizeof r)
		{
			bool sign_change_near = (g(r - acc) <= 0.0 && g(r + acc) >= 0.0);
			char what[160]; snprintf(what, sizeof what, "Find_Root(x^7-1e-3,[1e-6,1e3],acc=%g) = %.9g (root is 0.372759...)", acc, r);
			report(what, o, !sign_change_near);
		}
		else
			report("Find_Root(x^7-1e-3,[1e-6,1e3]) did not return", o, true);
		close(fd[0]); close(fd[1]);
	}
	// the families named in the property: power laws x^p - c on wide brackets, saturating functions, several roots
	{
		struct Case { const char* name; std::function<double(double)> f; double a, b; };
		std::vector<Case> cases = {
			{"x^3 - 2 on [1e-10, 1e10]", [](double x) { return x * x * x - 2.0; }, 1e-10, 1e10},
			{"x^0.5 - 3 on [1e-12, 1e12]", [](double x) { return std::sqrt(x) - 3.0; }, 1e-12, 1e12},
			{"x^11 - 1e-8 on [1e-6, 1e3]", [](double x) { return std::pow(x, 11.0) - 1e-8; }, 1e-6, 1e3},
			{"atan(x - 0.3) on [-1e6, 1e6]", [](double x) { return std::atan(x - 0.3); }, -1e6, 1e6},
			{"erf(x) - 0.999999 on [-10, 10]", [](double x) { return std::erf(x) - 0.999999; }, -10.0, 10.0},
			{"tanh(50 (x - 0.7)) on [0, 1e4]", [](double x) { return std::tanh(50.0 * (x - 0.7)); }, 0.0, 1e4},
			{"(x-1)(x-2)(x-3) on [0, 10]", [](double x) { return (x - 1.0) * (x - 2.0) * (x - 3.0); }, 0.0, 10.0},
			{"x^5 (flat) on [3, -1]", [](double x) { return x * x * x * x * x; }, 3.0, -1.0},
			{"exp(x) - 1e-30 on [-200, 5]", [](double x) { return std::exp(x) - 1e-30; }, -200.0, 5.0}};
		for(auto& c : cases)
			for(double rel : {1e-14, 1e-9, 1e-4, 1e-1})
			{
				double scale = std::max(std::fabs(c.a), std::fabs(c.b));
				// the accuracy is a multiple of the size of the root where that is known to be of order one, else of the bracket
				double acc = rel * ((scale > 100.0) ? 1.0 : scale);
				double r = 0.0; long outside = 0;
				int fd[2]; if(pipe(fd)) return 3;
				Outcome o = run_child([&]() { double v = Find_Root(c.f, c.a, c.b, acc); if(write(fd[1], &v, sizeof v) < 0) _exit(7); });
				char what[200];
				if(o.returned_normally && read(fd[0], &r, sizeof r) == (ssize_t) sizeof r)
				{
					double lo = std::min(c.a, c.b), hi = std::max(c.a, c.b);
					double p = std::max(lo, r - acc), q = std::min(hi, r + acc);
					bool ok = r >= lo && r <= hi && (c.f(p) * c.f(q) <= 0.0 || c.f(r) == 0.0);
					snprintf(what, sizeof what, "Find_Root(%s, acc=%g) = %.15g: sign change within the accuracy: %s", c.name, acc, r, ok ? "yes" : "no");
					report(what, o, !ok);
				}
				else { snprintf(what, sizeof what, "Find_Root(%s, acc=%g) did not return", c.name, acc); report(what, o, true); }
				(void) outside;
				close(fd[0]); close(fd[1]);
			}
	}
	return finish();
}
