// C04/C10: matrix sums are defined exactly when the two shapes are equal; row index guard; empty list.
#include "harness.hpp"
#include "libphysica/Linear_Algebra.hpp"
using namespace libphysica;
int main()
{
	{ Outcome o = run_child([]() { Matrix A(2, 3, 1.0), B(2, 3, 2.0); Matrix C = A.Plus(B); (void) C; }); report("Matrix(2x3).Plus(Matrix(2x3))", o, violates_meaningful(o)); }
	{ Outcome o = run_child([]() { Matrix A(2, 3, 1.0), B(2, 3, 2.0); Matrix C = A.Minus(B); (void) C; }); report("Matrix(2x3).Minus(Matrix(2x3))", o, violates_meaningful(o)); }
	{ Outcome o = run_child([]() { Matrix A(2, 3, 1.0), B(2, 3, 2.0); A += B; A -= B; }); report("Matrix(2x3) += / -= Matrix(2x3)", o, violates_meaningful(o)); }
	{ Outcome o = run_child([]() { Matrix A(2, 3, 1.0), B(3, 2, 2.0); Matrix C = A.Plus(B); (void) C; }); report("Matrix(2x3).Plus(Matrix(3x2))", o, violates_meaningless(o)); }
	{ Outcome o = run_child([]() { Matrix A(3, 2, 1.0), B(2, 3, 2.0); Matrix C = A.Minus(B); (void) C; }); report("Matrix(3x2).Minus(Matrix(2x3))", o, violates_meaningless(o)); }
	{ Outcome o = run_child([]() { Matrix A(3, 2, 1.0), B(2, 3, 2.0); A += B; }); report("Matrix(3x2) += Matrix(2x3)", o, violates_meaningless(o)); }
	{ Outcome o = run_child([]() { Matrix A(3, 2, 1.0), B(2, 3, 2.0); A -= B; }); report("Matrix(3x2) -= Matrix(2x3)", o, violates_meaningless(o)); }
	{ Outcome o = run_child([]() { Matrix A(0, 0); volatile double x = A[0][0]; (void) x; }); report("Matrix(0x0)[0]", o, violates_meaningless(o)); }
	{ Outcome o = run_child([]() { const Matrix A(0, 0); volatile double x = A[0][0]; (void) x; }); report("const Matrix(0x0)[0]", o, violates_meaningless(o)); }
	{ Outcome o = run_child([]() { std::vector<std::vector<double>> e; Matrix A(e); if(A.Rows() != 0 || A.Columns() != 0) abort(); }); report("Matrix(empty list) is the 0x0 matrix", o, violates_meaningful(o)); }
	{ Outcome o = run_child([]() { std::vector<std::vector<double>> e = {{1, 2}, {3}}; Matrix A(e); }); report("Matrix(ragged list)", o, violates_meaningless(o)); }
	return finish();
}
