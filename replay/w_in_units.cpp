// C20: In_Units divides by the unit and rounds to the requested significant digits when asked, for every overload and every unit
// (the unit 1 included).
#include "harness.hpp"
#include "libphysica/Natural_Units.hpp"
#include "libphysica/Special_Functions.hpp"
#include <cmath>
using namespace libphysica::natural_units;
using namespace libphysica;
int main()
{
	int bad = 0;
	double units[] = {1.0, GeV, keV, cm, sec, 3.0};
	for(double u : units) for(double q : {1.23456789, -9.87654321e-7, 4.4e12})
	{
		double plain = In_Units(q * u, u), rounded = In_Units(q * u, u, true, 3), want = Round(q, 3);
		if(std::fabs(plain - q) > 1e-12 * std::fabs(q)) { printf("OBSERVED In_Units(%.9g * u, u=%.6g) = %.12g  ** VIOLATES the property **\n", q, u, plain); bad++; }
		if(std::fabs(rounded - want) > 1e-9 * std::fabs(want)) { printf("OBSERVED In_Units(%.9g * u, u=%.6g, round, 3 digits) = %.12g, expected %.12g  ** VIOLATES the property **\n", q, u, rounded, want); bad++; }
		std::vector<double> v = In_Units(std::vector<double>{q * u, 2 * q * u}, u, true, 3);
		if(std::fabs(v[1] - Round(2 * q, 3)) > 1e-9 * std::fabs(v[1])) { printf("OBSERVED vector overload, unit %.6g: %.12g, expected %.12g  ** VIOLATES the property **\n", u, v[1], Round(2 * q, 3)); bad++; }
	}
	printf(bad ? "REPRODUCED %d\n" : "NOT-REPRODUCED\n", bad);
	return 0;
}
