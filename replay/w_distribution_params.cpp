// C10 / C07 / C18: distribution parameters outside their range are a meaningless request: the process stops with a diagnostic instead of
// returning a number; parameters inside the range return normally.
#include "harness.hpp"
#include "libphysica/Statistics.hpp"
#include <cmath>
#include <utility>
#include <random>
#include <vector>
using namespace libphysica;
#define BAD(name, call) { Outcome o = run_child([&]() { volatile double v = call; printf("%g\n", (double) v); }); report(name, o, violates_meaningless(o)); }
#define GOOD(name, call) { Outcome o = run_child([&]() { volatile double v = call; (void) v; }); report(name, o, violates_meaningful(o)); }
int main()
{
	BAD("PDF_Gauss with sigma = -1", PDF_Gauss(0.3, 0.0, -1.0));
	BAD("PDF_Gauss with sigma = 0", PDF_Gauss(0.3, 0.0, 0.0));
	BAD("CDF_Gauss with sigma = -2", CDF_Gauss(0.3, 0.0, -2.0));
	BAD("CDF_Gauss with sigma = 0", CDF_Gauss(0.3, 0.0, 0.0));
	BAD("Quantile_Gauss with sigma = -1", Quantile_Gauss(0.3, 0.0, -1.0));
	BAD("PDF_Uniform with x_min > x_max", PDF_Uniform(0.5, 1.0, 0.0));
	BAD("PDF_Uniform with x_min = x_max", PDF_Uniform(1.0, 1.0, 1.0));
	BAD("CDF_Uniform with x_min > x_max", CDF_Uniform(0.5, 1.0, 0.0));
	{
		std::pair<double, double> mean(0.0, 0.0), neg(-1.0, 1.0), zero(1.0, 0.0), ok(1.0, 2.0);
		BAD("PDF_Gauss_2D with sigma = (-1, 1)", PDF_Gauss_2D(0.3, 0.1, mean, neg));
		BAD("PDF_Gauss_2D with sigma = (1, 0)", PDF_Gauss_2D(0.3, 0.1, mean, zero));
		GOOD("PDF_Gauss_2D with sigma = (1, 2)", PDF_Gauss_2D(0.3, 0.1, mean, ok));
	}
	{
		std::mt19937 g(1);
		BAD("Sample_Uniform on the reversed interval [1, 0]", Sample_Uniform(g, 1.0, 0.0));
		BAD("Sample_Poisson with mean -1", (double) Sample_Poisson(g, -1.0));
		BAD("Sample_Poisson of a list with a negative mean", (double) Sample_Poisson(g, std::vector<double> {1.0, -0.5})[1]);
		BAD("Sample_Gauss with sigma = -1", Sample_Gauss(g, 0.0, -1.0));
		GOOD("Sample_Uniform(0, 1), Sample_Uniform(2, 2)", Sample_Uniform(g, 0.0, 1.0) + Sample_Uniform(g, 2.0, 2.0));
		GOOD("Sample_Poisson(0), Sample_Poisson(3.5)", (double) (Sample_Poisson(g, 0.0) + Sample_Poisson(g, 3.5)));
		GOOD("Sample_Gauss(0, 1)", Sample_Gauss(g, 0.0, 1.0));
	}
	BAD("PDF_Exponential with mean 0", PDF_Exponential(1.0, 0.0));
	BAD("PDF_Maxwell_Boltzmann with a = -1", PDF_Maxwell_Boltzmann(1.0, -1.0));
	BAD("PMF_Binomial with p = 1.5", PMF_Binomial(5, 1.5, 2));
	BAD("PMF_Poisson with mean -1", PMF_Poisson(-1.0, 2));
	GOOD("PDF_Gauss(0.3, 0, 2)", PDF_Gauss(0.3, 0.0, 2.0));
	GOOD("CDF_Gauss(0.3, 0, 1e-3)", CDF_Gauss(0.3, 0.0, 1e-3));
	GOOD("Quantile_Gauss(0.3, 1, 0) (degenerate: the mean)", Quantile_Gauss(0.3, 1.0, 0.0));
	GOOD("PDF_Uniform(0.5, 0, 1)", PDF_Uniform(0.5, 0.0, 1.0));
	GOOD("CDF_Uniform(2, 0, 1)", CDF_Uniform(2.0, 0.0, 1.0));
	return finish();
}
