// Replay harness: runs one request against the real library in a child process and classifies the outcome
// by the *property statement* (C10): diagnostic exit / normal return / memory error.
#pragma once
#include <sys/wait.h>
#include <unistd.h>
#include <fcntl.h>
#include <cstdio>
#include <cstdlib>
#include <cstring>
#include <functional>
#include <string>

struct Outcome
{
	bool returned_normally = false;	  // child reached the end of the request
	bool diagnostic_exit   = false;	  // exit status 1 (EXIT_FAILURE) with non-empty stderr/stdout diagnostic
	bool memory_error	   = false;	  // sanitizer report, libstdc++ assertion, SIGSEGV, SIGABRT, SIGFPE
	int status			   = 0;
	std::string text;
};

inline Outcome run_child(const std::function<void()>& request)
{
	Outcome o;
	int pfd[2];
	if(pipe(pfd) != 0) { perror("pipe"); exit(3); }
	fflush(stdout); fflush(stderr);
	pid_t pid = fork();
	if(pid == 0)
	{
		close(pfd[0]);
		dup2(pfd[1], 1);
		dup2(pfd[1], 2);
		request();
		fflush(stdout); fflush(stderr);
		_exit(42);	 // distinguished status: the request returned
	}
	close(pfd[1]);
	char buf[4096];
	ssize_t n;
	while((n = read(pfd[0], buf, sizeof buf)) > 0)
		if(o.text.size() < 20000) o.text.append(buf, n);
	close(pfd[0]);
	int st = 0;
	waitpid(pid, &st, 0);
	o.status = st;
	if(WIFEXITED(st) && WEXITSTATUS(st) == 42) o.returned_normally = true;
	else if(WIFEXITED(st) && WEXITSTATUS(st) == 1 && o.text.find("Sanitizer") == std::string::npos && o.text.find("runtime error") == std::string::npos && !o.text.empty()) o.diagnostic_exit = true;
	else o.memory_error = true;
	return o;
}

inline const char* kind(const Outcome& o)
{
	return o.returned_normally ? "returned-normally" : o.diagnostic_exit ? "diagnostic-exit" : "memory-error-or-abort";
}

// A meaningless request must end in a diagnostic exit; a meaningful one must return.
inline bool violates_meaningless(const Outcome& o) { return !o.diagnostic_exit; }
inline bool violates_meaningful(const Outcome& o) { return !o.returned_normally; }

static int g_viol = 0;
inline void report(const char* what, const Outcome& o, bool violated)
{
	std::string first = o.text.substr(0, o.text.find('\n') == std::string::npos ? 200 : std::min<size_t>(200, o.text.find('\n')));
	printf("OBSERVED %s -> %s%s | %s\n", what, kind(o), violated ? "  ** VIOLATES the property **" : "", first.c_str());
	if(violated) g_viol++;
}
inline int finish()
{
	printf(g_viol ? "REPRODUCED %d\n" : "NOT-REPRODUCED\n", g_viol);
	return 0;
}
