// C04/C10: compound assignment and Cross on non-conformable operands are meaningless requests.
#include "harness.hpp"
#include "libphysica/Linear_Algebra.hpp"
using namespace libphysica;
int main()
{
	{ Outcome o = run_child([]() { Vector a(2, 1.0), b(5, 1.0); a += b; }); report("Vector(2) += Vector(5)", o, violates_meaningless(o)); }
	{ Outcome o = run_child([]() { Vector a(2, 1.0), b(5, 1.0); a -= b; }); report("Vector(2) -= Vector(5)", o, violates_meaningless(o)); }
	{ Outcome o = run_child([]() { Vector a(5, 1.0), b(2, 1.0); a += b; }); report("Vector(5) += Vector(2)", o, violates_meaningless(o)); }
	{ Outcome o = run_child([]() { Vector a(3, 1.0), b(5, 2.0); Vector c = a.Cross(b); (void) c; }); report("Vector(3).Cross(Vector(5))", o, violates_meaningless(o)); }
	{ Outcome o = run_child([]() { Vector a(3, 1.0), b(2, 2.0); Vector c = a.Cross(b); (void) c; }); report("Vector(3).Cross(Vector(2))", o, violates_meaningless(o)); }
	{ Outcome o = run_child([]() { Vector a(3, 1.0), b(3, 2.0); a += b; a -= b; Vector c = a.Cross(b); (void) c; }); report("conformable +=, -=, Cross", o, violates_meaningful(o)); }
	return finish();
}
