#!/usr/bin/env python3
"""Regenerate the table of DESIGN.md section 10.4 (between the two marker comments) from seeded/*/result.json (quick tier)
and seeded/*/result_thorough.json (thorough tier: obligations plus witness drivers), and print the counts."""
import json, os, re
ROOT = '/verif'
rows = []; cnt = {'quick': 0, 'quick_replayed': 0, 'thorough': 0, 'undecided': 0, 'missed': 0, 'n': 0}
def first(res):
    for pid, r in res.items():
        if r['verdict'] == 'detected': return pid, r
    pid = list(res.keys())[0]
    return pid, res[pid]
for d in sorted(os.listdir(os.path.join(ROOT, 'seeded'))):
    p = os.path.join(ROOT, 'seeded', d)
    if not os.path.exists(os.path.join(p, 'meta.json')): continue
    cnt['n'] += 1
    q = json.load(open(os.path.join(p, 'result.json'))) if os.path.exists(os.path.join(p, 'result.json')) else {}
    t = json.load(open(os.path.join(p, 'result_thorough.json'))) if os.path.exists(os.path.join(p, 'result_thorough.json')) else {}
    qp, qr = first(q) if q else (None, {'verdict': 'not run'})
    verdict = qr['verdict']
    ob = ''; rep = ''
    if verdict == 'detected':
        cnt['quick'] += 1
        ob = '`%s` (%s)' % (re.sub(r'^E[12]_+', '', qr['violations'][0])[:70], qp)
        rep = 'yes' if qr.get('reproduced') else 'no'
        if qr.get('reproduced'): cnt['quick_replayed'] += 1
    th = ''
    if verdict != 'detected':
        if t:
            tp, tr = first(t)
            if tr['verdict'] == 'detected':
                th = 'detected: `%s`' % re.sub(r'^E[12]_+', '', tr['violations'][0])[:60]; cnt['thorough'] += 1
            else: th = tr['verdict']
        if not th.startswith('detected'):
            cnt['undecided' if verdict == 'undecided' else 'missed'] += 1
    rows.append('| %s | %s | %s | %s | %s |' % (d, verdict, ob, rep, th))
body = '| change | quick tier | first failing obligation (property) | failing input replayed on the real code | thorough tier (adds the witness drivers) |\n|---|---|---|---|---|\n' + '\n'.join(rows)
p = os.path.join(ROOT, 'DESIGN.md'); s = open(p).read()
a, b = '<!-- 10.4 table: begin -->', '<!-- 10.4 table: end -->'
assert a in s and b in s
s = s[:s.index(a) + len(a)] + '\n' + body + '\n' + s[s.index(b):]
open(p, 'w').write(s)
print(cnt)
