#!/usr/bin/env python3
"""usage: tools/ingest_seeds.py <worktree prefix, e.g. /tmp/seed4_> <round> <P1> [<P2> ...]
For each property P: confirm the changes delivered in <prefix>P_out/{1,2,3} with tools/confirm_seed.sh in the worktree <prefix>P,
store the confirmed ones as /verif/seeded/<P>-<next free index>, remove the worktree and its output directory."""
import sys, os, json, shutil, subprocess, re
prefix, rnd, props = sys.argv[1], int(sys.argv[2]), sys.argv[3:]
head = subprocess.run(['git', '-C', '/repo', 'rev-parse', '--short', 'HEAD'], capture_output=True, text=True).stdout.strip()
for P in props:
    wt = prefix + P; outd = prefix + P + '_out'
    taken = [int(d.split('-')[1]) for d in os.listdir('/verif/seeded') if d.startswith(P + '-')]
    nxt = max(taken + [0]) + 1
    for k in '123':
        src = os.path.join(outd, k)
        if not os.path.exists(os.path.join(src, 'patch.diff')): print(P, k, 'NO-PATCH'); continue
        r = subprocess.run(['/verif/tools/confirm_seed.sh', wt, src], capture_output=True, text=True, cwd='/tmp')
        ok = 'CONFIRMED' in r.stdout.split('\n')[-2:] or r.stdout.strip().endswith('CONFIRMED') and not r.stdout.strip().endswith('NOT-CONFIRMED')
        print(P, k, r.stdout.strip().split('\n')[-2:] )
        if not ok: continue
        dst = '/verif/seeded/%s-%d' % (P, nxt); os.makedirs(dst, exist_ok=True)
        for f in ('patch.diff', 'demo.cpp', 'notes.txt'):
            if os.path.exists(os.path.join(src, f)): shutil.copy(os.path.join(src, f), dst)
        notes = open(os.path.join(src, 'notes.txt')).read() if os.path.exists(os.path.join(src, 'notes.txt')) else ''
        json.dump({'id': '%s-%d' % (P, nxt), 'property': P, 'round': rnd,
                   'source': 'independent sub-agent given only the property text and a scratch worktree of /repo at %s' % head,
                   'needs_to_manifest': ' '.join(notes.split())[:900],
                   'confirmed_by': 'tools/confirm_seed.sh in the scratch worktree: change applies, builds, ctest passes (test_Integration re-run when its unseeded Monte-Carlo tests flake), demo exits 1 with the change and 0 without',
                   'ran': ['tools/confirm_seed.sh %s %s -> CONFIRMED' % (wt, src)]}, open(os.path.join(dst, 'meta.json'), 'w'), indent=1)
        nxt += 1
    subprocess.run(['git', '-C', '/repo', 'worktree', 'remove', '--force', wt], capture_output=True)
    shutil.rmtree(outd, ignore_errors=True); shutil.rmtree(prefix + P + '_scratch', ignore_errors=True)
subprocess.run(['git', '-C', '/repo', 'worktree', 'prune'])
