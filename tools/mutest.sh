#!/bin/sh
# usage: tools/mutest.sh <file under src/> '<sed expr>' <e2 keys...>   -- apply a mutation to a scratch copy and run E2 goals
M=/var/tmp/lpvmut.$$; rm -rf $M; mkdir -p $M/_build; cp -r /repo/src /repo/include $M/; cp -r /repo/_build/generated $M/_build/
f=$1; e=$2; shift 2
sed -i "$e" $M/$f
diff /repo/$f $M/$f | head -6
LPV_REPO=$M LPV_CACHE=$M/ast python3-vt -m lpv.run e2 "$@" 2>&1 | grep -v "^{" | cut -c1-160 | grep "FAILED\|UNDECIDED\|^obligations\|Error\|error"
rm -rf $M
