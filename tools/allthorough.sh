#!/bin/bash
# run every claimed check once (thorough tier), three at a time; prints one line per property and the exit codes
cd "$(dirname "$0")/.."
out=${1:-/tmp/allthorough}; mkdir -p "$out"
ids=$(python3 -c "import json;print(' '.join(c['property_id'] for c in json.load(open('MANIFEST.json'))['checks']))")
echo $ids | tr ' ' '\n' | xargs -P 3 -I{} sh -c 'LPV_JOBS=4 bin/check {} --tier thorough > '"$out"'/{}.out 2>&1; echo "{} exit=$? $(tail -1 '"$out"'/{}.out | cut -c1-160)"'
