#!/bin/sh
# usage: tools/seedreplay.sh <seed id> <driver>   -- run a replay driver against a scratch copy of /repo with the seeded change applied
M=/var/tmp/lpvsr.$$; rm -rf $M; mkdir -p $M/_build; cp -r /repo/src /repo/include $M/; cp -r /repo/_build/generated $M/_build/
(cd $M && patch -p1 -s < /verif/seeded/$1/patch.diff) || { echo PATCH-FAILED; rm -rf $M; exit 2; }
LPV_REPO=$M LPV_BUILD=$M/build python3-vt -m lpv.replay $2 2>&1 | grep "VIOLATES\|REPRODUCED\|reproduced" | cut -c1-260 | head -${3:-12}
rm -rf $M
