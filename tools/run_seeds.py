#!/usr/bin/env python3
"""Run the property check of every seeded change under /verif/seeded (or the ones named) against a scratch copy
of /repo with the change applied; write seeded/<id>/result.json and print a table."""
import os, sys, json, subprocess, re, concurrent.futures
ROOT='/verif/seeded'
ids = sys.argv[1:] or sorted(os.listdir(ROOT))
def run(i):
    d=os.path.join(ROOT,i); meta=json.load(open(os.path.join(d,'meta.json')))
    props=[meta['property']]+meta.get('also_check',[])
    res={}
    for pid in props:
        if not os.path.exists('/verif/properties/%s.goals'%pid):
            res[pid]={'verdict':'no-check'}; continue
        r=subprocess.run(['/verif/tools/seedtest.sh',pid,os.path.join(d,'patch.diff'),os.environ.get('TIER','quick')],capture_output=True,text=True)
        out=r.stdout
        viol=re.findall(r'VIOLATION property=\S+ replay=\S*/replays/\S+/(\S+?)\.json( no-failing-input-found)?',out)
        und=[l for l in out.split('\n') if l.startswith('UNDECIDED')]
        if 'PATCH-FAILED' in out: v='patch-failed'
        elif viol: v='detected'
        elif und: v='undecided'
        else: v='missed'
        res[pid]={'verdict':v,'violations':[a for a,b in viol][:12],'reproduced':[a for a,b in viol if not b][:12],'undecided':und[:6],'summary':[l for l in out.split('\n') if re.match(r'^C\d+:',l)]}
    json.dump(res,open(os.path.join(d,'result.json' if os.environ.get('TIER','quick')=='quick' else 'result_thorough.json'),'w'),indent=1)
    return i,res
with concurrent.futures.ThreadPoolExecutor(4) as ex:
    for i,res in ex.map(run,ids):
        for pid,r in res.items():
            print('%-8s %-4s %-10s %s'%(i,pid,r['verdict'],(r.get('violations') or r.get('undecided') or [''])[0][:100]))
