#!/usr/bin/env python3
"""Regenerate MANIFEST.json from properties/*.goals (claimed) and properties/not_applicable.json."""
import json, os, re
ROOT = '/verif'
props = [json.loads(l) for l in open(os.path.join(ROOT, 'properties.jsonl'))]
na = json.load(open(os.path.join(ROOT, 'properties', 'not_applicable.json')))
checks = []; napp = []
for p in props:
    pid = p['id']
    gp = os.path.join(ROOT, 'properties', pid + '.goals')
    if os.path.exists(gp) and pid not in na:
        txt = open(gp).read()
        def field(name, default):
            m = re.search(r'^#\s*' + name + r':\s*(.*)$', txt, re.M)
            return m.group(1).strip() if m else default
        engines = sorted(set(re.findall(r'^(e1|e2|e2rel|static)\s', txt, re.M)))
        checks.append({
            'property_id': pid,
            'quick_cmd': './bin/check %s --tier quick' % pid,
            'thorough_cmd': './bin/check %s --tier thorough' % pid,
            'evidence_file': '/verif/evidence/%s.json' % pid,
            'replay_cmd_template': './bin/lpv replay {path}',
            'engine': '+'.join(engines),
            'level_claimed': {'category': field('category', 'proof'), 'text': field('level', 'contracts on the real functions (extracted from /repo each run) discharged function by function'), 'design_ref': 'DESIGN.md section 4 ' + pid},
            'level_note': field('note', 'trusted: AST->IR translator, E2 VC generator, z3; double arithmetic as real arithmetic (A1); std:: primitive models and libm axioms (A3)'),
            'technique': field('technique', 'contract-based deductive verification: pre/postconditions, loop invariants and lemmas on the extracted functions, discharged by z3 (own WP generator) and CBMC code contracts'),
        })
    else:
        napp.append({'property_id': pid, 'reason': na.get(pid, 'designed (DESIGN.md section 4) but not built yet')})
m = {
    'version': 1,
    'setup_cmd': 'python3-vt -m lpv.setup',
    'hooks': {'guard': 'LIBPHYSICA_VERIF', 'enable': 'none needed: no hook is compiled into /repo; the guard name is reserved and unused',
              'baseline_off_cmd': 'ctest --test-dir /repo/_build -j8 --timeout 900', 'source_commits': [], 'add_only': True},
    'engines': [
        {'name': 'E2 wp-real', 'path': 'lpv/e2.py', 'serves_properties': [c['property_id'] for c in checks], 'kind_free_text': 'weakest-precondition / symbolic-execution VC generator over the IR extracted from clang\'s typed AST; double = Real, integers = Int with explicit wrap; z3 (nlsat, smt)'},
        {'name': 'E1 cbmc-fp', 'path': 'lpv/e1.py', 'serves_properties': [c['property_id'] for c in checks if 'e1' in c['engine']], 'kind_free_text': 'CBMC 6.11 code contracts (goto-instrument --dfcc, loop contracts) on the C mirror emitted from the same IR; bit-precise'},
    ],
    'checks': checks,
    'notes': 'See DESIGN.md (section 10 is the as-built state). Contracts: contracts/*.spec; goals per property: properties/<id>.goals; known findings: known_findings.json. Both tiers decide the same obligations (contract-based deductive verification; evidence counts only those). The thorough tier additionally runs the witness drivers of the property (replay/w_*.cpp: executions of the real code under ASan/UBSan on inputs derived from the contract clauses -- testing, labelled as such under coverage.witness_replays), the committed seeded changes of the property as a self-test, and for C20 the four-build validation of assumption A7. A witness driver is also what supplies the failing input when an obligation fails, or when it is undecided / cannot be generated after a change of the code.',
    'not_applicable': napp,
}
json.dump(m, open(os.path.join(ROOT, 'MANIFEST.json'), 'w'), indent=1)
print('checks:', [c['property_id'] for c in checks])
