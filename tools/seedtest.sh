#!/bin/sh
# usage: tools/seedtest.sh <property id> <patch.diff> [tier]
# Applies a seeded change to a scratch copy of /repo's working tree and runs the property's check against it
# (evidence and replay files are redirected to the scratch directory). Prints the verdict lines.
pid=$1; patch=$2; tier=${3:-quick}
S=$(mktemp -d /var/tmp/lpvseed.XXXXXX)
trap 'rm -rf "$S"' EXIT
mkdir -p $S/repo/_build $S/out
cp -r /repo/src /repo/include $S/repo/; cp -r /repo/_build/generated $S/repo/_build/
( cd $S/repo && patch -p1 -s < "$patch" ) || { echo "PATCH-FAILED"; exit 3; }
cd /verif && LPV_REPO=$S/repo LPV_CACHE=$S/ast LPV_BUILD=$S/build LPV_OUT=$S/out ./bin/check $pid --tier $tier 2>&1 | cut -c1-220 | sed "s#$S#<scratch>#g"
echo "exit=$?"
