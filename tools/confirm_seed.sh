#!/bin/sh
# usage: tools/confirm_seed.sh <worktree> <seed dir with patch.diff demo.cpp>
# Confirms in the scratch worktree: the change applies, compiles, passes ctest; the demo FAILs with it and PASSes without.
wt=$1; sd=$2
cd "$wt" || exit 2
git checkout -q -- . ; git status --short | grep -v "^??" && { echo "WORKTREE-DIRTY"; exit 2; }
[ -d _build ] || cmake -G Ninja -B _build -DCMAKE_BUILD_TYPE=RelWithDebInfo -DFETCHCONTENT_SOURCE_DIR_GOOGLETEST=/usr/src/googletest >/dev/null 2>&1
demo() { g++ -std=c++14 -O1 -I include -I _build/generated -I src "$sd/demo.cpp" _build/src/libphysica.a -lconfig++ -o "$sd/demo.bin" 2>"$sd/demo.compile.log" || { echo "DEMO-COMPILE-FAILED"; return 9; }; timeout 300 "$sd/demo.bin" >"$sd/demo.$1.out" 2>&1; echo $?; }
git apply "$sd/patch.diff" || { echo "APPLY-FAILED"; exit 3; }
cmake --build _build >"$sd/build.log" 2>&1 || { echo "BUILD-FAILED"; git checkout -q -- .; exit 4; }
ct=1; for try in 1 2 3 4; do ctest --test-dir _build -j8 --timeout 900 >"$sd/ctest.log" 2>&1; ct=$?; [ $ct = 0 ] && break; grep -q "test_Integration" "$sd/ctest.log" || break; done   # test_Integration holds unseeded Monte-Carlo tests that are flaky on the unchanged tree (BASELINE.json)
with=$(demo with)
git checkout -q -- .
cmake --build _build >>"$sd/build.log" 2>&1
without=$(demo without)
rm -f "$sd/demo.bin"
echo "ctest_exit=$ct demo_with_change_exit=$with demo_without_change_exit=$without"
[ "$ct" = 0 ] && [ "$with" != 0 ] && [ "$without" = 0 ] && echo "CONFIRMED" || echo "NOT-CONFIRMED"
