#!/usr/bin/env python3
"""Regenerate the bullet list of DESIGN.md section 10.6 (between the two marker comments) from properties/*.goals."""
import re, os, glob
ROOT = '/verif'
out = []
for gp in sorted(glob.glob(os.path.join(ROOT, 'properties', 'C*.goals'))):
    pid = os.path.basename(gp)[:-6]
    txt = open(gp).read()
    def field(name):
        m = re.search(r'^#\s*' + name + r':\s*(.*)$', txt, re.M)
        return m.group(1).strip() if m else ''
    title = re.search(r'^title (.*)$', txt, re.M).group(1)
    kinds = {}
    for k in re.findall(r'^(e1|e2rel|e2|static)\s', txt, re.M): kinds[k] = kinds.get(k, 0) + 1
    nd = [l.split(' ', 1)[1].split(' :: ')[0].strip() for l in txt.split('\n') if l.startswith('not_decided ')]
    tr = [l.split(' ', 1)[1].strip() for l in txt.split('\n') if l.startswith('trusted ') or l.startswith('assume ')]
    cat = field('category') or 'proof'
    out.append('* **%s** %s -- %s goals (%s); level %s. %s' % (pid, title, sum(kinds.values()), ', '.join('%d %s' % (n, k) for k, n in sorted(kinds.items())), cat, field('level')))
    if nd: out.append('  Not decided: ' + '; '.join(nd) + '.')
    if tr: out.append('  Trusted: ' + '; '.join(tr) + '.')
body = '\n'.join(out)
p = os.path.join(ROOT, 'DESIGN.md')
s = open(p).read()
a, b = '<!-- 10.6 generated: begin -->', '<!-- 10.6 generated: end -->'
assert a in s and b in s
s = s[:s.index(a) + len(a)] + '\n' + body + '\n' + s[s.index(b):]
open(p, 'w').write(s)
print(len(out), 'lines')
