// Driver TU: explicit instantiations of the header templates of List_Manipulations.hpp for T = double,
// so that clang records the instantiated function bodies (DESIGN 2.1).  Nothing here is verified text.
#include <iostream>
#include <vector>
#include "libphysica/List_Manipulations.hpp"
namespace libphysica
{
template bool Lists_Equal<double>(const std::vector<double>&, const std::vector<double>&);
template bool Lists_Equal<double>(const std::vector<std::vector<double>>&, const std::vector<std::vector<double>>&);
template std::vector<double> Combine_Lists<double>(const std::vector<double>&, const std::vector<double>&);
template std::vector<std::vector<double>> Transpose_Lists<double>(const std::vector<std::vector<double>>&);
template std::vector<std::vector<double>> Transpose_Lists<double>(const std::vector<double>&, const std::vector<double>&);
template std::vector<double> Sub_List<double>(const std::vector<double>&, int, unsigned int);
template std::vector<double> Flatten_List<double>(const std::vector<std::vector<double>>&);
template bool List_Contains<double>(const std::vector<double>&, double);
template std::vector<int> Find_Indices<double>(const std::vector<double>&, double);
}
